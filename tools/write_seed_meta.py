#!/usr/bin/env python3
"""Write seeded/<ID>-<n>/meta.json from the agent's own meta and my confirmation/detection records."""
import json, os, glob

# id -> (caught by, signature, caught by the check as first built?, note)
DET = {
 "C01-1": (["C01 quick"], "C01/restore-error", True, ""),
 "C01-2": (["C01 quick"], "C01/restore-error", True, ""),
 "C02-1": (["C02 quick"], "C02/version/restore-error", True, ""),
 "C02-2": (["C02 quick"], "C02/version/restore-diff/content", True, ""),
 "C03-1": (["C03 quick"], "C03/dangling-reference", True, "also reported as C03/flaky: the change introduces a real race between two writes"),
 "C03-2": (["C03 quick", "C02 quick (corpus d9-torn-head-newest-band)"], "C03/latest-complete-version/restore-error", False, "missed by C03 as first built (it restored previous versions by id only); C03 now also restores the default selection at every crash point"),
 "C04-1": (["C04 quick"], "C04/dangling-reference", True, ""),
 "C04-2": (["C04 quick"], "C04/dangling-reference", True, ""),
 "C05-1": (["C05 quick"], "C05/.../kept-version/restore-error", True, ""),
 "C05-2": (["C05 quick"], "C05/after-crash/kept-version/restore-error", True, ""),
 "C06-1": (["C06 quick"], "C06/complete-version-names-removed-block/new-version", True, "found by enumeration with an empty corpus as well"),
 "C06-2": (["C06 quick"], "C06/complete-version-names-removed-block/new-version", True, "found by enumeration with an empty corpus as well"),
 "C07-1": (["C07 quick"], "C07/create-new-overwrites, C07/race/winner-version-wrong", True, ""),
 "C07-2": (["C07 quick"], "C07/race/write-to-existing-file", True, ""),
 "C08-1": (["C08 quick"], "C08/listing-differs-from-stitching-rule/incomplete", True, ""),
 "C08-2": (["C08 quick"], "C08/listing-differs-from-stitching-rule/incomplete-straddling", False, "missed as first built; head-less band slots may now carry a stray BANDTAIL"),
 "C09-1": (["C09 quick"], "C09/damage-not-reported/full/hunk/delete", True, ""),
 "C09-2": (["C09 quick"], "C09/damage-not-reported/full/bandhead/delete", False, "missed as first built (only complete versions were restored); interrupted versions with a head are now compared with their own pre-damage restore"),
 "C10-1": (["C10 quick"], "C10/file-lost-or-altered-silently/block/bitflip", False, "missed as first built ('reported' was judged per restore); now per file, with extra bit flips near the end of block files"),
 "C10-2": (["C10 quick"], "C10/restore-after-removal-error", True, ""),
 "C11-1": (["C11 quick"], "C11/cmp-differs-from-documented-order", True, ""),
 "C11-2": (["C11 quick"], "C11/written-index-not-strictly-increasing", True, ""),
 "C12-1": (["C12 quick"], "C12/is-prefix-of, C12/subtree-listing/non-ascii", True, "re-seeds the repaired defect D3"),
 "C12-2": (["C12 quick", "C08 quick"], "C12/stitched-subtree-listing", False, "missed by C12 as first built (complete versions only; C08 caught it); C12 now repeats its relation on a stitched version"),
 "C13-1": (["C13 quick"], "C13/address-outside-block", True, ""),
 "C13-2": (["C13 quick"], "C13/tail-hunk-count", True, ""),
 "C14-1": (["C14 quick"], "C14/unchanged-file-stored-again-after-resume", False, "missed as first built; the resumed backup must now keep the basis addresses of every unchanged file"),
 "C14-2": (["C14 quick"], "C14/unchanged-tree-wrote-blocks", True, ""),
 "C15-1": (["C15 quick"], "C15/list-differs-from-rule", True, ""),
 "C15-2": (["C15 quick"], "C15/list-differs-from-rule", True, ""),
 "C16-1": (["C16 thorough", "C16 quick via corpus three-bands-orphans-under-symlink"], "C16/stitched-dir-replaced-by-symlink/outside-modified/extra", False, "missed by quick; generator extended to three stitched bands and depth-4 trees; thorough finds it (2 of 58 000 cases, seed 0) and the shrunk case is in the corpus"),
 "C16-2": (["C16 quick"], "C16/non-empty-destination-accepted", True, ""),
 "C17-1": (["C17 quick"], "C17/content-differs/hunk", True, ""),
 "C17-2": (["C17 quick"], "C17/file-set-differs", False, "missed as first built (histories had no faults); a delete/gc step may now carry one failing block removal addressed by path"),
 "C18-1": (["C18 quick"], "C18/diff/...", True, ""),
 "C18-2": (["C18 quick"], "C18/diff/classified-unchanged-expected-changed", True, ""),
 # ---- second round: written against "randomized testing with small inputs" (adversarial prompt)
 "C01-3": (["C01 quick"], "C01/restore-diff/content", False, "round 2. write_vectored drops buffers beyond IOV_MAX=1024: needs one file of > 1024 blocks. Missed by the generators as first built (files <= 8 KiB); the full tree configuration now has rare files of 20-300 KB, which with small block sizes exceed 1024 blocks"),
 "C01-4": (["C01 quick"], "C01/restore-diff/mtime", False, "round 2. i128->i64 cast of nanoseconds wraps beyond year 2262 / before 1677: the mtime generator now reaches years ~1000..9000 and the +-9.22e9 s boundary"),
 "C02-3": (["C02 quick (scale probe many-hunks)", "C01 quick (scale probe)"], "C02/version/restore-error/probe-many-hunks", False, "round 2. index sub-directories listed concurrently, order lost: needs > 10 000 index hunks. Caught by the fixed scale probe added to C01, C02, C05, C08, C10, C13"),
 "C02-4": (["C02 quick"], "C02/version/restore-diff/content", True, "round 2. whole-second mtime leniency (same idea as C02-2)"),
 "C05-3": (["C05 quick"], "C05/referenced-block-removed/archive-with-a-missing-block", False, "round 2. reference scan stops when as many hashes were seen as blocks are present: needs an already missing block. Outside the fault-free histories of the statement's quantifier; C05 now has a case class that removes one block before the delete"),
 "C05-4": (["C05 quick (scale probe many-hunks)"], "C05/referenced-block-removed/probe-many-hunks", False, "round 2. only i/00000 is listed: needs > 10 000 hunks; caught by the scale probe"),
 "C08-3": (["C08 quick (scale probe many-hunks)"], "C08/listing-differs-from-stitching-rule/probe-many-hunks", False, "round 2. hunk path of hunks >= 10 000 computed wrongly; caught by the scale probe"),
 "C08-4": (["C08 quick"], "C08/listing-differs-from-stitching-rule/incomplete-straddling", True, "round 2. an empty hunk resets the resume point: the generator already writes empty [] hunks"),
 "C10-3": (["C10 quick (scale probe many-hunks)"], "C10/lost-file-not-reported/hunk/delete/probe-many-hunks", False, "round 2. a gap consisting of the last hunk of the previous index sub-directory is not reported; caught by the scale probe (hunk 9 999 deleted)"),
 "C10-4": (["C10 quick (scale probe big-blocks)"], "C10/file-lost-or-altered-silently/block/bitflip/probe-big-blocks", False, "round 2. blocks over 4 MiB bypass the hash check; caught by the scale probe (bit flips in a 6 MiB block)"),
 "C13-3": (["C13 quick (scale probe big-blocks)"], "C13/block-hash/probe-big-blocks", False, "round 2. blocks over 1 MiB hashed without their last partial MiB; caught by the scale probe (1 MiB + 7 bytes)"),
 "C13-4": (["C13 quick"], "C13/entries-not-increasing", True, "round 2. comparator skipping the common byte prefix"),
 "C14-3": (["C14 quick (scale probe resume-200-hunks)"], "C14/unchanged-file-stored-again-after-resume/probe-resume-200-hunks", False, "round 2. bisection over >= 128 hunks drops an entry; caught by the scale probe"),
 "C14-4": (["C14 quick (scale probe big-blocks)"], "C14/backup-error/probe-big-blocks", False, "round 2. blocks over 4 MB not entered in the present-set: duplicate content in one backup is written twice; caught by the scale probe (two identical 5.5 MiB files)"),
 "C16-3": (["C16 quick"], "C16/stitched-dir-replaced-by-symlink/outside-modified/extra", False, "round 2. only symlinks that resolve to a directory when created are remembered: needs a chain through a later-sorting sibling link; the generator now builds symlink chains and lets the replaced directory point at a sibling link"),
 "C16-4": (["C16 quick"], "C16/non-empty-destination-accepted", False, "round 2. a destination holding only lost+found counts as empty: reserved names (lost+found, CONSERVE, GC_LOCK, b0000, ...) are now in the name pool and the pre-populated destination is sometimes exactly that"),
 "C18-3": (["C18 quick"], "C18/diff/...", True, "round 2. diff ignores sub-second mtime changes when the stored mtime is a whole second"),
 "C18-4": (["C18 quick"], "C18/backup-callback/file-expected-changed", True, "round 2. chown-only change reported unchanged by the backup callback"),
 # ---- third round (same adversarial prompt, the other nine properties)
 "C03-3": (["C03 quick", "C08 quick", "C12 quick"], "C03/interrupted-version-subtree-listing", False, "round 3. resume point recorded after the filters (as C08-1): C03 listed the interrupted version unfiltered only; it now also lists up to three of its directories and one exclusion"),
 "C03-4": (["C08 quick"], "C08/listing-differs-from-stitching-rule/incomplete-straddling", False, "round 3. previous band search probes 16 ids then picks the OLDEST listed: needs an interrupted band with > 16 deleted ids below it and two older bands. Not reachable from C03's scenarios (the interrupted band is always the newest, id = last+1); caught by C08 after its id gaps were widened to 17..59"),
 "C04-3": (["C04 quick"], "C04/dangling-reference", False, "round 3. AlreadyExists on a block write accepted as dedup if a file of that name exists: needs an empty leftover at exactly that path plus that fault kind; 40% of C04's cases now start with an empty file at the path of a block the backup will write"),
 "C04-4": (["C04 quick"], "C04/dangling-reference", True, "round 3. hash claimed before create_dir (as C04-2)"),
 "C06-3": (["C06 quick"], "C06/complete-version-names-removed-block/new-version", False, "round 3. band list sorted by name, last() instead of max(): needs b10000 beside b9999; a quarter of C06's cases renumber the versions so that the backup creates b10000 (histories of the other checks start at b9998 in a tenth of the cases)"),
 "C06-4": (["C06 quick"], "C06/complete-version-names-removed-block/new-version", True, "round 3. the backup's second lock test moved below its block listing: found by the enumerated 3-switch schedules and by the corpus"),
 "C07-3": (["C07 quick"], "C07/create-new-overwrites/large-payload", False, "round 3. writes over 2 MiB ignore CreateNew: the transport contract is now probed with payloads up to 3 MiB and a race over a shared 3 MiB single-block file is a fixed probe"),
 "C07-4": (["C07 quick (scale probe many-hunks)", "C05 quick"], "C07/delete-removed-other-file/probe-many-hunks", False, "round 3. only the last index sub-directory is listed (> 10 000 hunks): gc removes referenced blocks; caught by the new probe"),
 "C09-3": (["C09 quick (probe many-blocks)"], "C09/damage-not-reported/full/block/garbage/probe-many-blocks", False, "round 3. with > 1000 blocks validate drops errors of throttled tasks and BlockMissing is not reported for present blocks: caught by the new 3000-block probe"),
 "C09-4": (["C09 quick (scale probe many-hunks)"], "C09/damage-not-reported/full/hunk/delete/probe-many-hunks", True, "round 3. gap consisting of hunk 9 999 unreported (the probe had been added after round 2)"),
 "C11-3": (["C11 quick"], "C11/written-index-not-strictly-increasing", False, "round 3. index writer sorts only when it believes it must; wrong when a small file reads as empty because it was truncated during the backup: a tenth of C11's tree cases now truncate a later file of the same directory while the backup runs"),
 "C11-4": (["C11 quick (scale probe many-hunks)", "C01 quick"], "C11/listing-not-strictly-increasing/probe-many-hunks", False, "round 3. hunk file names taken modulo 10 000: caught by the probe added to C11"),
 "C12-3": (["C12 quick"], "C12/stitched-subtree-listing", True, "round 3. subtree filter before the resume point (as C12-2)"),
 "C12-4": (["C12 quick (scale probe many-hunks)"], "C12/subtree-listing/probe-many-hunks", True, "round 3. seek over >= 128 hunks skips the hunk ending in the subtree root (the probe had been added before)"),
 "C15-3": (["C15 quick"], "C15/list-differs-from-rule", False, "round 3. trailing '/' stripped from one of the two globs only: patterns may now end in '/', a glued '**', '/**' or '*'"),
 "C15-4": (["C15 quick"], "C15/list-differs-from-rule", False, "round 3. no '/**' companion for patterns ending in '**' glued to a name: same generator extension"),
 "C17-3": (["C17 quick (probe many-hunks, two backups)"], "C17/content-differs/hunk/probe-many-hunks", False, "round 3. index sub-directories listed in completion order, visible when a > 10 000-hunk band is the basis of the next backup: the probe now makes a second, incremental backup"),
 "C17-4": (["C17 quick (probe wall-clock)", "C14 quick"], "C17/file-set-differs/probe-wall-clock", False, "round 3. files with an mtime ahead of the clock are always re-stored: the archive depends on the time of day. New probe: the same two backups replayed two seconds before and one second after the mtime of one file"),
 # ---- fourth round (adversarial prompt again, C01-C09; the agents knew from the commit log that scale probes exist)
 "C01-5": (["C01 quick (scale probe many-hunks)"], "C01/restore-error/probe-many-hunks", True, "round 4. hunk file name taken modulo 10 000 inside its sub-directory: caught by the existing probe"),
 "C01-6": (["C01 quick"], "C01/restore-diff/content", True, "round 4. restore gathers small parts and writes only the first 128 KiB of a gathered buffer: needs a file > 128 KiB stored in blocks that do not divide 128 KiB; the generator's rare 20-300 KB files with small blocks reach it"),
 "C02-5": (["C01 quick (probe huge-blocks)", "C02 quick (probe huge-blocks)"], "C02/version/restore-error/probe-huge-blocks", False, "round 4. decompression limit lowered from the format's 1 GiB to 32 MiB while the block size is a setting: needs a stored object over 32 MiB. New fixed probe in C01 and C02: single blocks of 40 MiB and 33 MiB+1 written with a 64 MiB block size (C02: carried over into a second version). An index hunk over 32 MiB (100 000 entries with long paths) stays out of reach"),
 "C02-6": (["C02 quick"], "C02/version/restore-diff/content", False, "round 4. a basis mtime without fractional part is compared to the second: needs a rewrite of equal length landing in the same second as a whole-second mtime. The model's edits chose new mtimes independently (seconds apart); new edit kind Nudge = same length, new content, old mtime + 1 ns .. 1 s; shrunk case in corpus/C02"),
 "C03-5": (["C03 quick (probe huge-file)", "C11 quick (probe huge-file)"], "C03/interrupted-band-not-a-prefix-of-source/probe-huge-file", False, "round 4. after a file >= 256 MiB the index hunk is written while small files are still queued for a combined block: needs a file of that absolute size. New fixed probe (one 272 MiB file between small ones) in C01, C03 (killed before the last block write) and C11 (written index order); absolute-size thresholds above that stay out of reach"),
 "C03-6": (["C03 quick", "C08 quick"], "C03/interrupted-version-listing", False, "round 4. stitching stops at an older band whose head cannot be read instead of skipping it: needs a band with an unreadable (zero-length) BANDHEAD below an interrupted band; C08 got a band state 'zero-length head' for it. Scenarios now end (27%) with a backup killed just before / while writing its BANDHEAD, and interrupted backups of histories stop at operation 0-3 a quarter of the time; shrunk case in corpus/C03"),
 "C04-5": (["C04 quick"], "C04/existing-file-removed", True, "round 4. clean-up remove_file after any failed block write, also AlreadyExists from a leftover"),
 "C04-6": (["C04 quick"], "C04/dangling-reference", False, "round 4. a block write failing with Other is retried and AlreadyExists on the retry is taken as success: needs exactly that pair of errors on adjacent operations. C04 now enumerates, for (a thinned set of) every write of the trace, all 16 ordered pairs of error kinds on that operation and the next one"),
 "C05-5": (["C05 quick (scale probe many-hunks)"], "C05/referenced-block-removed/probe-many-hunks", True, "round 4. reference scan walks sub-directories 0..count by position with hunk numbers taken relative: caught by the existing probe"),
 "C05-6": (["C05 quick"], "C05/after-failed-removal/other/kept-version/restore-error", False, "round 4. a failing removal of a version directory is counted and the blocks are deleted all the same: needs a failing remove_dir_all. C05 injected errors into reads/lists/metadata only; it now also fails (a thinned set of) the mutating operations of the delete; shrunk case in corpus/C05"),
 "C06-5": (["C06 quick"], "C06/complete-version-names-removed-block/new-version/with-storage-error", False, "round 4. unwrap_or(true) on the collector's look at the newest BANDTAIL: needs a live backup AND one transient error on exactly that metadata call. The scheduler can now fail the n-th operation of an actor; C06 adds runs with one error in each of the collector's first 8 operations (and a few later reads) while the backup is paused at a critical point, and errors in the backup's lock tests; corpus/C06"),
 "C06-6": (["C06 quick"], "C06/complete-version-names-removed-block/new-version", False, "round 4. break_lock rewritten to take the lock over in place, losing the refusal while the newest band is incomplete: needs break_lock = true, which C06 never passed. 35% of the cases now run the delete/gc with break_lock (15% with a stale GC_LOCK present); corpus/C06"),
 "C07-5": (["C07 quick"], "C07/race/backup-removes/with-storage-error", False, "round 4. after a failed block write (not AlreadyExists) a non-empty file of that name is removed, also when the other backup wrote it: needs two racing backups with shared new content and an injected error. C07's races now add runs in which one block write of one racer fails while the other racer ran in between; corpus/C07"),
 "C07-6": (["C07 quick"], "C07/gc-race/removed-foreign-lock", False, "round 4. the lock guard is marked held before its CreateNew write succeeded, so the loser of two collectors removes the winner's lock: needs two deletes racing, which nothing ran. New case kind GcRace: two deletes/gcs under the scheduler (<=2 switches over lock/list/mutating points + random), oracle from the trace: removals only while holding the lock, only the own lock file, one holder at a time, kept versions intact; corpus/C07"),
 "C08-5": (["C08 quick (scale probe many-hunks)"], "C08/listing-differs-from-stitching-rule/probe-many-hunks", True, "round 4. sub-directory names rebuilt from parsed numbers (hunk number used as sub-directory number): caught by the existing probe"),
 "C08-6": (["C08 quick"], "C08/listing-differs-from-stitching-rule/incomplete-straddling", False, "round 4. binary-search jump ahead over >= 64 remaining hunks of the older band is off by one: needs an older band with that many hunks. A tenth of C08's generated archives are now wide (100-250 paths, mostly one entry per hunk, interrupted bands cut at a generated point); corpus/C08"),
 "C09-5": (["C09 quick (probe many-blocks)"], "C09/damage-not-reported/full/block/garbage/probe-many-blocks", False, "round 4. validate joins block reads in batches of 10 000 and drops the errors of full batches: needs > 10 000 blocks. The many-blocks probe grew from 3000 to 13 000 blocks (damaged: first, 1/3, 1/2, last in name order)"),
 "C09-6": (["C09 quick (scale probe many-hunks)"], "C09/healthy-archive-reported/probe-many-hunks", True, "round 4. new layout check flags hunk 9 999 as misplaced: caught by the existing probe"),
}

for d in sorted(glob.glob("/verif/seeded/C*-*")):
    sid = os.path.basename(d)
    am = {}
    try:
        am = json.load(open(os.path.join(d, "agent_meta.json")))
    except Exception:
        pass
    det = DET.get(sid)
    demo = [f for f in os.listdir(d) if f.startswith("seeded_demo")]
    meta = {
        "seeded_change": sid,
        "property": sid.split("-")[0],
        "summary": am.get("summary", ""),
        "needs_to_manifest": am.get("needs", ""),
        "files_changed": am.get("files_changed", []),
        "patch": "patch.diff",
        "demonstration": demo,
        "confirmed_in_scratch_worktree": {
            "how": "tools/confirm_seed.sh: git apply; cargo test --offline --no-fail-fast (whole existing suite); cargo test --test <demo> with the change; git apply -R; the demo again",
            "existing_suite_with_change": "identical to the unchanged tree: only backup::test::source_unreadable fails (sandbox runs as root)",
            "demo_with_change": "fails",
            "demo_without_change": "passes",
        },
        "run_against_the_checks": {
            "how": "tools/eval_seed.sh: git -C /repo apply <patch>; ./check <ID> --tier quick|thorough (VERIF_HOME elsewhere); git -C /repo checkout -- .",
            "caught_by": det[0] if det else [],
            "signature": det[1] if det else "",
            "caught_by_the_check_as_first_built": det[2] if det else None,
            "note": det[3] if det else "",
        },
    }
    json.dump(meta, open(os.path.join(d, "meta.json"), "w"), indent=1, ensure_ascii=False)
print("wrote", len(glob.glob("/verif/seeded/C*-*/meta.json")))
