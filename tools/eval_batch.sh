#!/bin/sh
# Evaluate several seeded changes against a SNAPSHOT of the harness sources (so that the
# harness can be edited meanwhile):  tools/eval_batch.sh <root> <ID> [<ID>...]
# runs <root>/<ID>/out/patch.diff and patch2.diff against check <ID>.
root=$1; shift
snap=/tmp/evalh
mkdir -p $snap && rsync -a --delete --exclude target /verif/harness/ $snap/harness/
for id in "$@"; do
  for p in patch patch2; do
    patch=$root/$id/out/$p.diff
    [ -f "$patch" ] || continue
    cd /repo && git status --short | grep -q . && { echo "/repo is not clean"; exit 2; }
    git -C /repo apply --check "$patch" || { echo "== $id $p PATCH DOES NOT APPLY"; continue; }
    git -C /repo apply "$patch"
    mkdir -p /tmp/verif-eval && rm -rf /tmp/verif-eval/corpus && cp -r /verif/corpus /verif/known_findings.json /tmp/verif-eval/
    echo "== $id on $p"
    (cd $snap/harness && CARGO_NET_OFFLINE=true cargo build --profile verif >/dev/null 2>&1) || echo "BUILD FAILED"
    VERIF_HOME=/tmp/verif-eval timeout 1800 $snap/harness/target/verif/vcheck $id --tier ${TIER:-quick} 2>&1 | grep -E "^VIOLATION|signature|quick:|thorough:|INCONCLUSIVE" | head -6
    git -C /repo checkout -- .
  done
done
echo BATCHDONE
