#!/bin/sh
# Supplementary coverage-guided campaign for the thorough tier (DESIGN.md section 6).
#   tools/fuzz_campaign.sh <ID>     ID in C10, C11, C12
# Exit 0: no crash (or fuzzing unavailable: said so in the evidence); exit 1: VIOLATION printed.
id=$1
home=${VERIF_HOME:-/verif}
case $id in
  C10) target=fz_damage; runs=${FUZZ_RUNS:-60000}; maxlen=256 ;;
  C11|C12) target=fz_apath; runs=${FUZZ_RUNS:-3000000}; maxlen=96 ;;
  *) exit 0 ;;
esac
seed=${VERIF_SEED:-0}; [ "$seed" = "0" ] && seed=1
cd /verif/fz || exit 0
export RUSTFLAGS="-Zallow-features=" CARGO_NET_OFFLINE=true
note() { # $1 = json fragment merged into evidence coverage.fuzz
  ev=$home/evidence/$id.json
  [ -f "$ev" ] && jq --argjson f "$1" '.coverage.fuzz = $f' "$ev" > "$ev.tmp" && mv "$ev.tmp" "$ev"
}
if ! cargo +nightly fuzz build $target >/tmp/fuzz-build-$$.log 2>&1; then
  echo "fuzz: build of $target failed; thorough tier falls back to proptest only" >&2
  note "{\"target\":\"$target\",\"available\":false}"
  rm -f /tmp/fuzz-build-$$.log; exit 0
fi
rm -f /tmp/fuzz-build-$$.log
corpus=$(mktemp -d /dev/shm/fuzz-corpus-XXXXXX)
art=$home/replays/$id/fuzz/; mkdir -p $art
out=$(cargo +nightly fuzz run $target $corpus -- -runs=$runs -seed=$seed -max_len=$maxlen -len_control=0 -rss_limit_mb=4096 -timeout=120 -artifact_prefix=$art -print_final_stats=1 2>&1)
rc=$?
rm -rf $corpus /dev/shm/fz-damage-*
execs=$(echo "$out" | sed -n 's/^stat::number_of_executed_units: *//p' | tail -1)
if [ $rc -ne 0 ]; then
  crash=$(ls -t $art 2>/dev/null | head -1)
  case "$crash" in
    oom-*|timeout-*|slow-unit-*)
      # resource trouble is never reported as a violation (the proptest side owns hangs)
      echo "INCONCLUSIVE: libFuzzer stopped on $crash (memory or time limit), kept at $art$crash" >&2
      note "{\"target\":\"$target\",\"available\":true,\"runs\":${execs:-0},\"resource_limit_artifact\":\"$art$crash\"}"
      exit 2 ;;
  esac
  echo "VIOLATION property=$id replay=$art$crash"
  echo "  signature: $id/fuzz/$target"
  echo "$out" | grep -E "panicked|assert|ERROR" | head -5
  note "{\"target\":\"$target\",\"available\":true,\"runs\":${execs:-0},\"crash\":\"$art$crash\"}"
  exit 1
fi
note "{\"target\":\"$target\",\"available\":true,\"runs\":${execs:-$runs},\"seed\":$seed,\"crashes\":0}"
echo "fuzz $target: ${execs:-$runs} executions, no crash"
exit 0
