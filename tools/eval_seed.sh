#!/bin/sh
# Run checks against a seeded change applied to /repo (and undo it straight afterwards):
#   tools/eval_seed.sh <patch file> <ID> [more IDs...]
patch=$1; shift
cd /repo && git status --short | grep -q . && { echo "/repo is not clean"; exit 2; }
git -C /repo apply --check "$patch" || { echo "PATCH DOES NOT APPLY TO /repo"; exit 2; }
git -C /repo apply "$patch"
# the regression cases as committed (VERIF_HOME keeps evidence and replays out of /verif)
mkdir -p /tmp/verif-eval && rm -rf /tmp/verif-eval/corpus && cp -r /verif/corpus /verif/known_findings.json /tmp/verif-eval/
for id in "$@"; do
  echo "== $id on $(basename $(dirname $patch))/$(basename $patch)"
  (cd /verif && VERIF_HOME=/tmp/verif-eval timeout 1800 ./check $id --tier ${TIER:-quick} 2>&1 | grep -E "^VIOLATION|signature|quick:|thorough:|INCONCLUSIVE|KNOWN" | head -8)
done
git -C /repo checkout -- .
git -C /repo status --short | head -3
# leave a binary built from the unchanged tree behind
(cd /verif/harness && CARGO_NET_OFFLINE=true cargo build --profile verif >/dev/null 2>&1)
