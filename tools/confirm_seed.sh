#!/bin/sh
# Confirm a seeded change in its scratch worktree:
#   tools/confirm_seed.sh <ID> <patch file> <demo test target> [cargo feature flags]
# 1. applies the patch, runs the whole existing test suite (expect only the known root failure)
# 2. runs the demonstration with the patch (must FAIL), reverts, runs it again (must PASS)
id=$1; patch=$2; demo=$3; shift 3; feat="$*"
wt=${SEED_ROOT:-/tmp/seed}/$id/repo
cd $wt || exit 2
git checkout -q -- src 2>/dev/null
git apply --check "$patch" || { echo "PATCH DOES NOT APPLY"; exit 2; }
git apply "$patch"
echo "== existing tests with the change"
cargo test --offline --no-fail-fast 2>&1 | grep -E "^test result|FAILED|failed" | sort | uniq -c | head -20
echo "== demo with the change (must fail)"
cargo test --offline $feat --test $demo 2>&1 | grep -E "^test result|panicked|test .* (ok|FAILED)" | head -8
git apply -R "$patch"
echo "== demo without the change (must pass)"
cargo test --offline $feat --test $demo 2>&1 | grep -E "^test result|test .* (ok|FAILED)" | head -8
git status --short | head -5
