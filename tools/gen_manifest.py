#!/usr/bin/env python3
"""Regenerate /verif/MANIFEST.json from the table below (keeps it valid at all times)."""
import json, subprocess, sys

HOOK_COMMITS = subprocess.run(["git","-C","/repo","log","--format=%H","--grep=^verif hook"],capture_output=True,text=True).stdout.split()

# id -> (level, technique, level text, level note, design ref)
CHECKS = {
 "C01": ("exploration",
   "property-based round-trip: generated (options, tree) -> backup -> restore, compared with an lstat/read snapshot oracle (proptest, shrinking)",
   "Random search over the product of backup options and source trees (names stressing the order, file sizes placed around the small-file cap and block multiples, every mode bit, pre-/post-epoch and sub-second mtimes, named owners), with a byte-exact snapshot oracle that shares no code with conserve. Exploration is the honest level: the input space is unbounded and an exact inverse exists, so a round-trip oracle decides each generated case completely.",
   "Runs as root on tmpfs; owners restricted to ids that have names on this machine; generated trees <= 40 nodes (rarely 110-320 files), files <= 8 KiB (rarely to 300 KB), directory chains to 44 levels, names to 255 bytes, plus fixed scale probes per run (> 10 000 index hunks, blocks of 1-40 MiB, one 272 MiB file, one index hunk > 32 MiB, 100 200 files with default options, 700 directories under an open-file limit of 512); generated cases only, no absence claim.",
   "DESIGN.md 5 C01"),
 "C11": ("exploration",
   "exhaustive enumeration of path pairs/triples/strings against a reference order + property-based tree walks (proptest)",
   "The comparison, equality, antisymmetry and transitivity clauses are decided by complete enumeration of a small-alphabet universe (all 21.9M ordered pairs of depth<=4 paths, all 17.4M triples at depth<=3, all strings with bad components for is_valid) against a reference comparator written from doc/format.md; the 'walk, listing and index emit strictly increasing order' clause by generated trees whose walk, listing and independently decoded hunks are compared with the model. Enumeration is exhaustive only inside the stated universe; beyond it random paths are used, hence exploration.",
   "Reference comparator is trusted (byte-wise, from the documentation). Release-like build (debug assertions off).",
   "DESIGN.md 5 C11"),
 "C12": ("exploration",
   "exhaustive pair enumeration of is_prefix_of against byte-wise containment + property-based subtree list/restore on generated trees (metamorphic: subtree result == filtered full result)",
   "Every ordered pair of a depth<=3 universe with multi-byte and mutually-extending names is checked against whole-component containment; generated trees are backed up and every entry (plus absent paths) is used as the subtree for listing, every directory for restoring, compared with the filtered full listing / full restore.",
   "Containment oracle trusted; restoring a single nested file by path is outside the property and not exercised.",
   "DESIGN.md 5 C12"),
 "C02": ("exploration",
   "model-based stateful property test: generated operation histories interpreted against a version model, every surviving version restored and compared after every step (proptest vec-of-ops + interpreter, shrinking)",
   "Histories of mutate / backup(options) / interrupted backup / delete(subset) / gc are generated and shrunk as one value; the model remembers the source tree of each completed version and after every step every surviving complete version is restored by id, plus 'latest', and compared byte- and metadata-exact. Exploration: the history space is unbounded; the oracle per step is exact.",
   "Interruption = storage frozen at an operation boundary via the verif_hooks interceptor; content edits always change mtime or size.",
   "DESIGN.md 5 C02"),
 "C13": ("exploration",
   "property-based differential decoding: after every mutating operation of generated single backups and histories, and after backups of a source that changes while it is read, an independent reader of the 0.6 format (serde_json + snap + blake2) checks every documented invariant against the model",
   "The independent decoder shares no code with conserve's reader; it is run after every backup, interrupted backup, delete and gc of generated histories and single (options, tree) backups, and the address lengths are compared with the model's file sizes.",
   "Zero-length leftovers of the torn-write interruption are skipped as the documented exception.",
   "DESIGN.md 5 C13"),
 "C15": ("exploration",
   "property-based differential/metamorphic test: backup-with-excludes == list-with-excludes == restore-with-excludes == model rule, over generated trees and glob sets built from the tree's own names (proptest)",
   "Four independently obtained path sets must coincide for every generated (tree, pattern set): the independently decoded index of a backup made with the exclusions, the filtered listing and the filtered restore of a full backup, and the statement's rule evaluated by the harness.",
   "Matching one glob against one string is delegated to the globset crate; tree names may consist of glob metacharacters, and a pattern built from such a name is a pattern for conserve and for the oracle alike.",
   "DESIGN.md 5 C15"),
 "C16": ("exploration",
   "property-based invariant test: generated trees/histories with symlinks aimed at sentinels; invariant = lstat/ctime/inode snapshot of everything outside the destination is unchanged by restore (proptest)",
   "Symlink targets are constructed to reach sentinel files and directories beside the destination (relative chains, absolute, '..', '/'), destinations are absent/empty/pre-populated, and a second class restores an interrupted version in which a directory was replaced by a symlink. The sandbox outside the destination is snapshotted before and after including ctime and inode numbers, so any chmod/chown/utimes/write through a link is visible.",
   "A destination pre-populated by the harness holds no symlinks; one pre-populated by an earlier restore (second phase: the oldest version restored with overwrite over a version in which a directory had become a symlink) does. A quarter of the restores run with one injected storage error. The check runs as root so a write-through cannot be hidden by a permission error.",
   "DESIGN.md 5 C16"),
 "C18": ("exploration",
   "property-based model comparison: generated tree + edit set; conserve's diff stream and backup change callback compared with a model diff written from the statement (proptest)",
   "The model diff is computed from the two model trees by the statement's rule; diff output must equal it entry-for-entry in path order with and without unchanged entries, the diff of an unmodified tree must be empty, and the backup callback must classify every file of the new tree and report every removed file.",
   "Content edits that keep size and mtime are not generated; non-file kinds are exempt on the callback side.",
   "DESIGN.md 5 C18"),
 "C03": ("fault_enumeration",
   "crash-point enumeration inside a property-based scenario generator: every mutating storage operation of the backup's logged trace (and a torn variant per write) as a stop-the-world point, judged against the independent decoder, a reference stitcher and snapshot oracles (proptest + verif_hooks interceptor)",
   "Scenarios (history prefix, new tree, options) are generated and shrunk by proptest; for each scenario the crash-point space is finite and is enumerated completely in the thorough tier (thinned to 80 points per scenario in quick). All five clauses of the statement are checked at every point.",
   "Crash granularity is one transport operation plus the empty-file state of a killed write; partial writes, partial remove_dir_all and fsync ordering are not modelled.",
   "DESIGN.md 5 C03"),
 "C04": ("fault_enumeration",
   "fault enumeration inside a property-based scenario generator: every operation of the backup's logged storage trace x 4 error kinds as a single injected failure, all 16 ordered pairs of kinds on (write, following operation), plus generated multi-fault plans; oracle = independent decoder + model content + restore comparison",
   "For each generated scenario every single-fault plan over the logged trace is executed (thinned to 60 operations in quick) and generated multi-fault plans are added; the oracle decodes every band independently and compares every recorded file's reassembled bytes with the model.",
   "An injected failure has no side effect; fault granularity is one transport operation.",
   "DESIGN.md 5 C04"),
 "C05": ("fault_enumeration",
   "model-based history generation + enumeration of every crash point, every failing read/list and failing removals of the delete's logged trace; oracle = independent reference scan (referenced vs present blocks) and exact restores of kept versions",
   "Histories and the subset to delete are generated by proptest; the fault-free delete is judged against an independent referenced/present scan and directory diff, and for successful real deletes every crash point and every single read/list/metadata fault of the logged trace is replayed from a pristine copy, after which every remaining complete version must restore exactly.",
   "remove_dir_all of a band is one atomic operation in the model; zero-length block files are not blocks.",
   "DESIGN.md 5 C05"),
 "C14": ("exploration",
   "property-based metamorphic test (second backup of an unchanged tree writes nothing and records identical addresses), logged-trace invariant over generated histories, and crash-point enumeration for the resume clause",
   "Three generated case kinds share one check: twice-backed-up trees with differing options, histories with every storage operation logged together with the pre-state of its path, and scenarios whose backup is interrupted at every crash point and then resumed.",
   "Zero-length leftovers may be completed; crash granularity is one transport operation.",
   "DESIGN.md 5 C14"),
 "C08": ("exploration",
   "exhaustive enumeration of small hand-written archives + property-based larger ones against a reference stitcher (differential), with an order invariant and an output-length termination bound",
   "The harness writes archives directly in the documented format, so arrangements conserve itself would never produce in a test (absent and head-less slots, id gaps, empty hunks, missing trailing hunks, arbitrary hunk splits) are reachable; every arrangement of 3 band slots over a 3-path (thorough 4-path) universe is enumerated and larger ones are generated. The listing is compared entry-for-entry with a reference implementation of the stitching rule, provenance encoded in mtimes.",
   "Reference stitcher trusted; head-less directories are not versions.",
   "DESIGN.md 5 C08"),
 "C09": ("fault_enumeration",
   "model-based histories for the healthy side + enumeration of every file x every damage kind for the damage side; oracle = restore comparison decides whether validate owes an error",
   "Healthy: validate (full and quick) after every step of generated histories must be silent. Damaged: for archives from generated histories every stored file is deleted, emptied, halved, overwritten and (blocks) bit-flipped in turn; whenever some complete version no longer restores exactly, validate must report.",
   "'Reported' = Err, Monitor error or ERROR-level event; zero-length leftovers are outside the healthy side; the quick tier damages at most 80 files per archive.",
   "DESIGN.md 5 C09"),
 "C10": ("fault_enumeration",
   "enumeration of every stored file x {delete, truncate, garbage, bit flips} over archives from generated histories; oracles = no panic / bounded listing, independent decoder decides per file entry whether it must restore exactly or must be reported",
   "For every damaged state all read operations and a new backup are run under catch_unwind with a watchdog; a reference listing with provenance (band, hunk file, block files) decides, per file entry, which obligation applies.",
   "Quick tier samples a third of the (file, damage) pairs per archive; hunks altered but still decodable carry only the no-crash obligation; deleting the last hunk of an incomplete band is a legal state.",
   "DESIGN.md 5 C10"),
 "C06": ("exploration",
   "schedule exploration under a deterministic scheduler that owns every storage operation of both actors (verif_hooks interceptor): bounded-preemption enumeration over switch points derived from solo traces + generated random schedules + one injected storage error per run in either actor, both values of break_lock, inside a property-based scenario generator that constructs the hazard",
   "The harness parks each actor (its own OS thread and runtime) before every storage operation and releases exactly one at a time, so an execution is a pure function of the schedule value, which is enumerated (all <=2-switch schedules over the bracketing points of every lock/list/mutating operation, all 3-switch schedules over the critical points) and generated (random segment lists). Scenarios are built so that garbage blocks reappear in the new source. Exploration, not model checking: the bound and the point selection are stated, not exhaustive.",
   "Sequentially consistent storage, atomic transport operations; S3-style eventual consistency is out of reach.",
   "DESIGN.md 5 C06"),
 "C07": ("exploration",
   "logged-trace invariant over generated histories (every storage operation with the pre-state of its path, directory bytes before/after) + deterministic-scheduler races (two backups, also with one failing block write or one racer killed at a block write; two deletes/gcs judged from the trace) with enumerated <=2-switch and generated schedules + direct transport contract probe incl. overlapping CreateNew writers",
   "Write-once is checked three ways: the directory's bytes before and after every step of generated histories, the logged operation stream (no write to a non-empty path, no double write, no remove during backup; removals of delete/gc confined to what the independent scan allows), and races of two backups of differing sources in which every version must be written by one actor only.",
   "Transport-operation granularity; sequentially consistent local storage.",
   "DESIGN.md 5 C07"),
 "C17": ("exploration",
   "differential replay: the same generated history into two fresh archives under different runtime flavours, unserialized storage operations and generated timing perturbation; byte comparison modulo the two timestamp keys",
   "Each history is replayed on a current-thread runtime with serialized storage operations and on a multi-thread runtime (1, 2 or 4 workers) with overlapping storage operations perturbed by generated yields/sleeps; after every archive operation the two directories must be identical except for start_time/end_time.",
   "Evidence about scheduling-independence, not a proof over all schedules.",
   "DESIGN.md 5 C17"),
}

NOT_BUILT_REASON = "check not built yet in this session (planned, see DESIGN.md section 5); not claimed until its command exists and is silent on the unchanged tree"

def main():
    props = [json.loads(l) for l in open("/verif/properties.jsonl")]
    checks = []
    na = []
    for p in props:
        pid = p["id"]
        if pid in CHECKS:
            level, tech, text, note, ref = CHECKS[pid]
            checks.append({
                "property_id": pid,
                "quick_cmd": f"./check {pid} --tier quick",
                "thorough_cmd": f"./check {pid} --tier thorough",
                "evidence_file": f"/verif/evidence/{pid}.json",
                "replay_cmd_template": f"./check {pid} --replay {{path}}",
                "engine": "vcheck",
                "level_claimed": {"category": level, "text": text, "design_ref": ref},
                "level_note": note,
                "technique": tech,
            })
        else:
            na.append({"property_id": pid, "reason": NOT_BUILT_REASON})
    m = {
        "version": 1,
        "setup_cmd": "cd /verif/harness && CARGO_NET_OFFLINE=true cargo build --profile verif",
        "hooks": {
            "guard": "cargo feature verif_hooks (conserve crate)",
            "enable": "the harness depends on conserve by path with features=[\"verif_hooks\"], default-features off: every ./check rebuilds conserve from /repo's working tree with the hook compiled in",
            "baseline_off_cmd": "cd /repo && if [ -f /w/lib/nextest.toml ]; then cargo nextest run --workspace --no-fail-fast --tool-config-file pb:/w/lib/nextest.toml --profile pb --test-threads 8 --offline; else cargo test --workspace --no-fail-fast --offline; fi",
            "source_commits": HOOK_COMMITS,
            "add_only": True,
        },
        "engines": [
            {"name": "vcheck", "path": "/verif/harness", "serves_properties": sorted(CHECKS.keys()),
             "kind_free_text": "Rust binary: proptest TestRunner (fixed seeds from VERIF_SEED, shrinking, no persistence) over generated trees/options/histories/fault plans/schedules; 16 worker processes; independent format decoder and snapshot oracles; transport interceptor hook for crash points, faults and schedules"},
        ],
        "checks": checks,
        "not_applicable": na,
        "notes": "Exit codes: 0 held, 1 VIOLATION line printed, 2 inconclusive (build failure, watchdog). Known findings: /verif/known_findings.json (status open -> KNOWN-FINDING line, exit 0; status fixed suppresses nothing). Regression corpus replayed first on every run: /verif/corpus/<ID>/.",
    }
    json.dump(m, open("/verif/MANIFEST.json","w"), indent=1)
    print(f"wrote MANIFEST.json: {len(checks)} checks, {len(na)} not claimed")

if __name__ == "__main__":
    main()
