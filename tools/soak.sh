#!/bin/sh
# Run every check's quick tier for several seeds with the already-built binary, keeping
# evidence/replays out of /verif. usage: tools/soak.sh "<seeds>" [ids...]
seeds="$1"; shift
# the binary may have been left by an evaluation against a patched /repo: rebuild first
(cd /repo && git status --short | grep -q .) && { echo "/repo is not clean"; exit 2; }
(cd /verif/harness && CARGO_NET_OFFLINE=true cargo build --profile verif >/dev/null 2>&1) || { echo "build failed"; exit 2; }
ids="${*:-$(/verif/harness/target/verif/vcheck list)}"
home=/tmp/verif-soak-$$
mkdir -p $home && cp -r /verif/corpus /verif/known_findings.json $home/
cp /verif/harness/target/verif/vcheck $home/vcheck   # later rebuilds must not affect this run
for s in $seeds; do
  for id in $ids; do
    out=$(VERIF_HOME=$home VERIF_SEED=$s $home/vcheck $id --tier ${TIER:-quick} 2>&1); rc=$?
    echo "seed=$s $id rc=$rc $(echo "$out" | tail -1)"
    if [ $rc -ne 0 ]; then echo "$out" | head -20; fi
  done
done
echo "soak home: $home (remove when done)"
