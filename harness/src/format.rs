//! Independent reader (and writer) of the documented 0.6 archive format.
//!
//! Uses only std, serde_json, snap and blake2-rfc: never conserve's own reader.

use std::cmp::Ordering;
use std::collections::BTreeMap;
use std::path::Path;

use serde_json::{Value, json};

// ---------------------------------------------------------------------------
// Reference apath order / validity (doc/format.md "Apaths")

/// (directory components, final name) on bytes.
fn key(p: &str) -> (Vec<&[u8]>, &[u8]) {
    let b = p.as_bytes();
    let b = if !b.is_empty() && b[0] == b'/' { &b[1..] } else { b };
    let mut comps: Vec<&[u8]> = Vec::new();
    let mut start = 0usize;
    for i in 0..b.len() {
        if b[i] == b'/' {
            comps.push(&b[start..i]);
            start = i + 1;
        }
    }
    let name = &b[start..];
    (comps, name)
}

/// The documented total order: directory part component-wise (a proper prefix first),
/// then the final name, all byte-wise.
pub fn ref_cmp(a: &str, b: &str) -> Ordering {
    let (da, na) = key(a);
    let (db, nb) = key(b);
    let mut i = 0;
    loop {
        match (da.get(i), db.get(i)) {
            (None, None) => return na.cmp(nb),
            (None, Some(_)) => return Ordering::Less,
            (Some(_), None) => return Ordering::Greater,
            (Some(x), Some(y)) => match x.cmp(y) {
                Ordering::Equal => i += 1,
                o => return o,
            },
        }
    }
}

pub fn ref_valid(s: &str) -> bool {
    let b = s.as_bytes();
    if b.is_empty() || b[0] != b'/' {
        return false;
    }
    if b.len() == 1 {
        return true;
    }
    let mut start = 1usize;
    let mut i = 1usize;
    loop {
        if i == b.len() || b[i] == b'/' {
            let part = &b[start..i];
            if part.is_empty() || part == b"." || part == b".." || part.contains(&0u8) {
                return false;
            }
            start = i + 1;
            if i == b.len() {
                break;
            }
        }
        i += 1;
    }
    true
}

pub fn ref_under(s: &str, p: &str) -> bool {
    crate::tree::under(s, p)
}

// ---------------------------------------------------------------------------
// Reader

#[derive(Debug, Clone)]
pub enum FileState<T> {
    Absent,
    /// Zero-length file.
    Empty,
    Ok(T),
    Bad(String),
}

impl<T> FileState<T> {
    pub fn is_ok(&self) -> bool {
        matches!(self, FileState::Ok(_))
    }
    pub fn is_absent(&self) -> bool {
        matches!(self, FileState::Absent)
    }
    pub fn ok(&self) -> Option<&T> {
        match self {
            FileState::Ok(t) => Some(t),
            _ => None,
        }
    }
    /// Present with non-zero length (whether or not it parses).
    pub fn present_nonempty(&self) -> bool {
        matches!(self, FileState::Ok(_) | FileState::Bad(_))
    }
}

#[derive(Debug, Clone, PartialEq, Eq)]
pub struct RawAddr {
    pub hash: String,
    pub start: u64,
    pub len: u64,
}

#[derive(Debug, Clone, PartialEq)]
pub struct RawEntry {
    pub apath: String,
    pub kind: String,
    pub mtime: i64,
    pub mtime_nanos: u64,
    pub unix_mode: Option<u64>,
    pub user: Option<String>,
    pub group: Option<String>,
    pub addrs: Vec<RawAddr>,
    pub target: Option<String>,
    pub raw: Value,
}

impl RawEntry {
    pub fn size(&self) -> u64 {
        self.addrs.iter().map(|a| a.len).sum()
    }
}

#[derive(Debug, Clone)]
pub struct RawHunk {
    pub number: u32,
    /// Path relative to the archive root.
    pub relpath: String,
    pub name_ok: bool,
    pub file_len: u64,
    pub entries: Result<Vec<RawEntry>, String>,
}

#[derive(Debug, Clone)]
pub struct RawBand {
    pub id: u32,
    pub dirname: String,
    pub head: FileState<Value>,
    pub tail: FileState<Value>,
    pub hunks: Vec<RawHunk>,
    pub has_index_dir: bool,
    pub other: Vec<String>,
}

impl RawBand {
    pub fn is_closed(&self) -> bool {
        !self.tail.is_absent()
    }
    pub fn all_entries(&self) -> Vec<&RawEntry> {
        self.hunks
            .iter()
            .filter_map(|h| h.entries.as_ref().ok())
            .flatten()
            .collect()
    }
}

#[derive(Debug, Clone)]
pub struct RawBlock {
    pub relpath: String,
    pub file_len: u64,
    pub subdir_ok: bool,
    /// Decompressed content.
    pub content: Result<Vec<u8>, String>,
    pub hash_ok: bool,
}

#[derive(Debug, Clone)]
pub struct RawArchive {
    pub header: FileState<Value>,
    pub bands: BTreeMap<u32, RawBand>,
    /// hash hex (file name) -> block
    pub blocks: BTreeMap<String, RawBlock>,
    pub gc_lock: bool,
    pub other: Vec<String>,
}

fn read_json_file(p: &Path) -> FileState<Value> {
    match std::fs::read(p) {
        Err(_) => FileState::Absent,
        Ok(b) if b.is_empty() => FileState::Empty,
        Ok(b) => match serde_json::from_slice::<Value>(&b) {
            Ok(v) => FileState::Ok(v),
            Err(e) => FileState::Bad(e.to_string()),
        },
    }
}

pub fn blake2b_hex(data: &[u8]) -> String {
    hex::encode(blake2_rfc::blake2b::blake2b(64, &[], data).as_bytes())
}

pub fn snap_decompress(b: &[u8]) -> Result<Vec<u8>, String> {
    snap::raw::Decoder::new()
        .decompress_vec(b)
        .map_err(|e| e.to_string())
}

pub fn snap_compress(b: &[u8]) -> Vec<u8> {
    snap::raw::Encoder::new().compress_vec(b).expect("compress")
}

fn parse_entry(v: &Value) -> Result<RawEntry, String> {
    let o = v.as_object().ok_or("entry is not an object")?;
    let apath = o
        .get("apath")
        .and_then(|x| x.as_str())
        .ok_or("entry has no string apath")?
        .to_string();
    let kind = o
        .get("kind")
        .and_then(|x| x.as_str())
        .ok_or("entry has no string kind")?
        .to_string();
    let mtime = match o.get("mtime") {
        None => 0,
        Some(x) => x.as_i64().ok_or("mtime not an integer")?,
    };
    let mtime_nanos = match o.get("mtime_nanos") {
        None => 0,
        Some(x) => x.as_u64().ok_or("mtime_nanos not a non-negative integer")?,
    };
    let unix_mode = match o.get("unix_mode") {
        None | Some(Value::Null) => None,
        Some(x) => Some(x.as_u64().ok_or("unix_mode not an integer")?),
    };
    let getstr = |k: &str| -> Result<Option<String>, String> {
        match o.get(k) {
            None | Some(Value::Null) => Ok(None),
            Some(x) => Ok(Some(
                x.as_str().ok_or(format!("{k} not a string"))?.to_string(),
            )),
        }
    };
    let mut addrs = vec![];
    if let Some(a) = o.get("addrs") {
        for ad in a.as_array().ok_or("addrs not a list")? {
            let ao = ad.as_object().ok_or("addr not an object")?;
            addrs.push(RawAddr {
                hash: ao
                    .get("hash")
                    .and_then(|x| x.as_str())
                    .ok_or("addr has no hash")?
                    .to_string(),
                start: match ao.get("start") {
                    None => 0,
                    Some(x) => x.as_u64().ok_or("addr start not u64")?,
                },
                len: ao
                    .get("len")
                    .and_then(|x| x.as_u64())
                    .ok_or("addr has no len")?,
            });
        }
    }
    Ok(RawEntry {
        apath,
        kind,
        mtime,
        mtime_nanos,
        unix_mode,
        user: getstr("user")?,
        group: getstr("group")?,
        addrs,
        target: getstr("target")?,
        raw: v.clone(),
    })
}

pub fn decode_hunk_bytes(b: &[u8]) -> Result<Vec<RawEntry>, String> {
    let json = snap_decompress(b)?;
    let v: Value = serde_json::from_slice(&json).map_err(|e| e.to_string())?;
    let arr = v.as_array().ok_or("hunk is not a json list")?;
    arr.iter().map(parse_entry).collect()
}

fn list_names(p: &Path) -> Vec<(String, bool, u64)> {
    let mut v: Vec<(String, bool, u64)> = match std::fs::read_dir(p) {
        Ok(rd) => rd
            .filter_map(|e| e.ok())
            .map(|e| {
                let md = e.metadata().ok();
                (
                    e.file_name().to_string_lossy().into_owned(),
                    md.as_ref().map(|m| m.is_dir()).unwrap_or(false),
                    md.map(|m| m.len()).unwrap_or(0),
                )
            })
            .collect(),
        Err(_) => vec![],
    };
    v.sort();
    v
}

pub fn band_dirname(id: u32) -> String {
    format!("b{id:04}")
}

fn parse_band_dirname(s: &str) -> Option<u32> {
    let n = s.strip_prefix('b')?;
    if n.is_empty() || !n.bytes().all(|c| c.is_ascii_digit()) {
        return None;
    }
    n.parse().ok()
}

pub fn scan(root: &Path) -> RawArchive {
    let mut a = RawArchive {
        header: read_json_file(&root.join("CONSERVE")),
        bands: BTreeMap::new(),
        blocks: BTreeMap::new(),
        gc_lock: root.join("GC_LOCK").exists(),
        other: vec![],
    };
    for (name, is_dir, _len) in list_names(root) {
        if is_dir && name == "d" {
            for (sub, sub_is_dir, _) in list_names(&root.join("d")) {
                if !sub_is_dir {
                    a.other.push(format!("d/{sub}"));
                    continue;
                }
                for (bname, b_is_dir, blen) in list_names(&root.join("d").join(&sub)) {
                    let relpath = format!("d/{sub}/{bname}");
                    if b_is_dir {
                        a.other.push(relpath);
                        continue;
                    }
                    let raw = std::fs::read(root.join(&relpath)).unwrap_or_default();
                    let content = if raw.is_empty() {
                        Err("empty file".to_string())
                    } else {
                        snap_decompress(&raw)
                    };
                    let hash_ok = content
                        .as_ref()
                        .map(|c| blake2b_hex(c) == bname)
                        .unwrap_or(false);
                    a.blocks.insert(
                        bname.clone(),
                        RawBlock {
                            relpath,
                            file_len: blen,
                            subdir_ok: bname.len() == 128 && sub.len() == 3 && bname.starts_with(&sub),
                            content,
                            hash_ok,
                        },
                    );
                }
            }
        } else if is_dir {
            if let Some(id) = parse_band_dirname(&name) {
                a.bands.insert(id, scan_band(root, id, &name));
            } else {
                a.other.push(name);
            }
        } else if name != "CONSERVE" && name != "GC_LOCK" {
            a.other.push(name);
        }
    }
    a
}

fn scan_band(root: &Path, id: u32, dirname: &str) -> RawBand {
    let bdir = root.join(dirname);
    let mut band = RawBand {
        id,
        dirname: dirname.to_string(),
        head: read_json_file(&bdir.join("BANDHEAD")),
        tail: read_json_file(&bdir.join("BANDTAIL")),
        hunks: vec![],
        has_index_dir: bdir.join("i").is_dir(),
        other: vec![],
    };
    for (name, _is_dir, _) in list_names(&bdir) {
        if name != "BANDHEAD" && name != "BANDTAIL" && name != "i" {
            band.other.push(format!("{dirname}/{name}"));
        }
    }
    for (sub, sub_is_dir, _) in list_names(&bdir.join("i")) {
        if !sub_is_dir {
            band.other.push(format!("{dirname}/i/{sub}"));
            continue;
        }
        for (hname, h_is_dir, hlen) in list_names(&bdir.join("i").join(&sub)) {
            let relpath = format!("{dirname}/i/{sub}/{hname}");
            if h_is_dir {
                band.other.push(relpath);
                continue;
            }
            let Ok(number) = hname.parse::<u32>() else {
                band.other.push(relpath);
                continue;
            };
            let name_ok = hname == format!("{number:09}") && sub == format!("{:05}", number / 10000);
            let raw = std::fs::read(root.join(&relpath)).unwrap_or_default();
            let entries = if raw.is_empty() {
                Err("empty file".to_string())
            } else {
                decode_hunk_bytes(&raw)
            };
            band.hunks.push(RawHunk {
                number,
                relpath,
                name_ok,
                file_len: hlen,
                entries,
            });
        }
    }
    band.hunks.sort_by_key(|h| h.number);
    band
}

impl RawArchive {
    /// Reassemble a file's bytes from its addresses.
    pub fn file_bytes(&self, e: &RawEntry) -> Result<Vec<u8>, String> {
        let mut out = Vec::new();
        for a in &e.addrs {
            let b = self
                .blocks
                .get(&a.hash)
                .ok_or_else(|| format!("block {} missing", &a.hash[..a.hash.len().min(12)]))?;
            let c = b
                .content
                .as_ref()
                .map_err(|e| format!("block {} undecodable: {e}", &a.hash[..12]))?;
            let end = a
                .start
                .checked_add(a.len)
                .ok_or_else(|| "address overflow".to_string())?;
            if end as usize > c.len() {
                return Err(format!(
                    "address {}+{} beyond block {} of {} bytes",
                    a.start,
                    a.len,
                    &a.hash[..12],
                    c.len()
                ));
            }
            out.extend_from_slice(&c[a.start as usize..end as usize]);
        }
        Ok(out)
    }

    /// Every address of every decodable entry in every band must lie inside a present,
    /// non-empty, decodable block. Returns the first offender.
    pub fn first_dangling(&self) -> Option<String> {
        for b in self.bands.values() {
            for e in b.all_entries() {
                if let Err(msg) = self.file_bytes(e) {
                    return Some(format!("band {} entry {}: {msg}", b.id, e.apath));
                }
            }
        }
        None
    }

    pub fn referenced_hashes(&self, band_ids: impl Iterator<Item = u32>) -> std::collections::BTreeSet<String> {
        let mut s = std::collections::BTreeSet::new();
        for id in band_ids {
            if let Some(b) = self.bands.get(&id) {
                for e in b.all_entries() {
                    for a in &e.addrs {
                        s.insert(a.hash.clone());
                    }
                }
            }
        }
        s
    }
}

// ---------------------------------------------------------------------------
// Reference stitcher (doc: src/index/stitch.rs module comment, property C08)

#[derive(Debug, Clone)]
pub struct Provenance {
    pub band: u32,
    pub hunk_relpath: String,
}

/// The reference listing of version `n`: n's own entries, then while the band just
/// read is not closed, the entries of the nearest earlier band *with a head* that sort
/// after the last path taken so far.
pub fn ref_listing(a: &RawArchive, n: u32) -> Vec<(RawEntry, Provenance)> {
    let mut out: Vec<(RawEntry, Provenance)> = vec![];
    let mut last: Option<String> = None;
    let mut cur = Some(n);
    while let Some(id) = cur {
        let Some(band) = a.bands.get(&id) else { break };
        if band.head.present_nonempty() || id == n {
            for h in &band.hunks {
                if let Ok(entries) = &h.entries {
                    for e in entries {
                        let take = match &last {
                            None => true,
                            Some(l) => ref_cmp(&e.apath, l) == Ordering::Greater,
                        };
                        if take {
                            out.push((
                                e.clone(),
                                Provenance {
                                    band: id,
                                    hunk_relpath: h.relpath.clone(),
                                },
                            ));
                        }
                    }
                }
            }
            if let Some((e, _)) = out.last() {
                last = Some(e.apath.clone());
            }
        }
        if band.is_closed() {
            break;
        }
        // nearest lower band with a head
        cur = a
            .bands
            .range(..id)
            .rev()
            .find(|(_, b)| b.head.present_nonempty())
            .map(|(i, _)| *i);
    }
    out
}

// ---------------------------------------------------------------------------
// Writer (for archives built directly by the harness, C08)

pub fn entry_json(
    apath: &str,
    kind: &str,
    mtime: i64,
    addrs: &[(String, u64, u64)],
    target: Option<&str>,
) -> Value {
    let mut v = json!({
        "apath": apath,
        "kind": kind,
        "mtime": mtime,
        "unix_mode": 0o644,
    });
    if !addrs.is_empty() {
        v["addrs"] = Value::Array(
            addrs
                .iter()
                .map(|(h, s, l)| {
                    if *s == 0 {
                        json!({"hash": h, "len": l})
                    } else {
                        json!({"hash": h, "start": s, "len": l})
                    }
                })
                .collect(),
        );
    }
    if let Some(t) = target {
        v["target"] = json!(t);
    }
    v
}

pub fn write_archive_header(root: &Path) {
    std::fs::create_dir_all(root.join("d")).unwrap();
    std::fs::write(root.join("CONSERVE"), "{\"conserve_archive_version\":\"0.6\"}\n").unwrap();
}

pub fn write_block(root: &Path, content: &[u8]) -> String {
    let h = blake2b_hex(content);
    let dir = root.join("d").join(&h[..3]);
    std::fs::create_dir_all(&dir).unwrap();
    std::fs::write(dir.join(&h), snap_compress(content)).unwrap();
    h
}

pub fn write_band_dir(root: &Path, id: u32) {
    std::fs::create_dir_all(root.join(band_dirname(id)).join("i")).unwrap();
}

pub fn write_band_head(root: &Path, id: u32) {
    write_band_dir(root, id);
    std::fs::write(
        root.join(band_dirname(id)).join("BANDHEAD"),
        "{\"start_time\":1500000000,\"band_format_version\":\"0.6.3\",\"format_flags\":[]}\n",
    )
    .unwrap();
}

pub fn write_band_tail(root: &Path, id: u32, hunk_count: u64) {
    std::fs::write(
        root.join(band_dirname(id)).join("BANDTAIL"),
        format!("{{\"end_time\":1500000001,\"index_hunk_count\":{hunk_count}}}\n"),
    )
    .unwrap();
}

pub fn write_hunk(root: &Path, id: u32, number: u32, entries: &[Value]) {
    let dir = root
        .join(band_dirname(id))
        .join("i")
        .join(format!("{:05}", number / 10000));
    std::fs::create_dir_all(&dir).unwrap();
    let js = serde_json::to_vec(&Value::Array(entries.to_vec())).unwrap();
    std::fs::write(dir.join(format!("{number:09}")), snap_compress(&js)).unwrap();
}

/// List every regular file under the archive root, relative paths, sorted.
pub fn all_files(root: &Path) -> Vec<String> {
    fn rec(dir: &Path, rel: &str, out: &mut Vec<String>) {
        for (name, is_dir, _) in list_names(dir) {
            let r = if rel.is_empty() { name.clone() } else { format!("{rel}/{name}") };
            if is_dir {
                rec(&dir.join(&name), &r, out);
            } else {
                out.push(r);
            }
        }
    }
    let mut out = vec![];
    rec(root, "", &mut out);
    out.sort();
    out
}

/// Map relpath -> bytes of every file (and "<dir>/" -> empty for directories).
pub fn raw_tree(root: &Path) -> BTreeMap<String, Vec<u8>> {
    fn rec(dir: &Path, rel: &str, out: &mut BTreeMap<String, Vec<u8>>) {
        for (name, is_dir, _) in list_names(dir) {
            let r = if rel.is_empty() { name.clone() } else { format!("{rel}/{name}") };
            if is_dir {
                out.insert(format!("{r}/"), vec![]);
                rec(&dir.join(&name), &r, out);
            } else {
                out.insert(r.clone(), std::fs::read(dir.join(&name)).unwrap_or_default());
            }
        }
    }
    let mut out = BTreeMap::new();
    rec(root, "", &mut out);
    out
}
