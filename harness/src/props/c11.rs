//! C11 — paths have one total order, shared by the source walk and every index.

use std::cmp::Ordering;

use conserve::Apath;
use proptest::prelude::*;
use serde::{Deserialize, Serialize};

use crate::engine::{CaseResult, Cx, Failure, Prop, Tier};
use crate::format::{self, ref_cmp, ref_valid};
use crate::ops::{self, Opts, Sel};
use crate::tree::{self, Tree, TreeCfg};
use crate::{ensure, fail};

#[derive(Debug, Clone, Serialize, Deserialize)]
pub enum Case {
    /// Random paths: checked pairwise and for transitivity.
    Paths(Vec<String>),
    /// Arbitrary strings for is_valid.
    Strings(Vec<String>),
    /// A tree: the walk, the listing and the written index must follow the order.
    Walk { opts: Opts, tree: Tree },
    /// A tree one directory of which also holds names that are not valid UTF-8, pairwise
    /// differing only in their invalid bytes. Conserve leaves such names out; the walk, the
    /// written index and the listing must stay strictly increasing (no path twice) and must
    /// hold every well-formed path of the tree.
    WalkUndecodable { opts: Opts, tree: Tree, dir: u16 },
    /// A tree that changes while it is backed up: when the backup reports the `when`-th file,
    /// the `trunc`-th later file of the same directory is truncated to nothing. The written
    /// index and the listing must still be strictly increasing.
    WalkChanging {
        opts: Opts,
        tree: Tree,
        when: u16,
        trunc: u16,
        /// Instead of the truncation: the chosen directory is moved out of the tree when the
        /// backup reports its first file, and moved back `.1` reported files later (a
        /// directory that is briefly absent while the tree is walked).
        #[serde(default)]
        blink: Option<(u16, u8)>,
    },
}

pub const ALPHABET: &[&str] = &["a", "a.", "a-", "a b", "b", "é", ".x", "~"];
pub const ALPHABET6: &[&str] = &["a", "a.", "a b", "b", "é", "~"];

/// All paths of depth 0..=max_depth over the alphabet ("/" included).
pub fn universe(alphabet: &[&str], max_depth: usize) -> Vec<String> {
    let mut out = vec!["/".to_string()];
    let mut level: Vec<String> = vec![String::new()];
    for _ in 0..max_depth {
        let mut next = Vec::with_capacity(level.len() * alphabet.len());
        for p in &level {
            for c in alphabet {
                next.push(format!("{p}/{c}"));
            }
        }
        out.extend(next.iter().cloned());
        level = next;
    }
    out
}

fn depth(p: &str) -> usize {
    if p == "/" { 0 } else { p.bytes().filter(|b| *b == b'/').count() }
}

fn first_comp(p: &str) -> &str {
    p[1..].split('/').next().unwrap_or("")
}

fn interesting_pair(a: &str, b: &str) -> bool {
    a != b
        && first_comp(a) == first_comp(b)
        && (depth(a) != depth(b) || a.starts_with(b) || b.starts_with(a))
}

fn check_pair(a: &Apath, b: &Apath) -> CaseResult {
    let got = a.cmp(b);
    let want = ref_cmp(a, b);
    ensure!(
        got == want,
        "C11/cmp-differs-from-documented-order",
        "cmp({a:?}, {b:?}) = {got:?}, documented order says {want:?}"
    );
    let rev = b.cmp(a);
    ensure!(
        rev == got.reverse(),
        "C11/not-antisymmetric",
        "cmp({a:?},{b:?})={got:?} but cmp({b:?},{a:?})={rev:?}"
    );
    ensure!(
        (got == Ordering::Equal) == (**a == **b),
        "C11/equality",
        "cmp({a:?},{b:?})={got:?}"
    );
    Ok(())
}

fn check_triple(a: &Apath, b: &Apath, c: &Apath) -> CaseResult {
    if a.cmp(b) != Ordering::Greater && b.cmp(c) != Ordering::Greater {
        ensure!(
            a.cmp(c) != Ordering::Greater,
            "C11/not-transitive",
            "{a:?} <= {b:?} <= {c:?} but {a:?} > {c:?}"
        );
    }
    Ok(())
}

/// Sorted-list structure: each subtree contiguous; direct children before grandchildren.
fn check_contiguity(paths: &[Apath]) -> CaseResult {
    let mut sorted: Vec<&Apath> = paths.iter().collect();
    sorted.sort();
    sorted.dedup();
    for w in sorted.windows(2) {
        ensure!(
            ref_cmp(w[0], w[1]) == Ordering::Less,
            "C11/sort-not-increasing",
            "sorted list has {:?} before {:?}",
            w[0],
            w[1]
        );
    }
    for d in paths {
        let mut state = 0; // 0 before, 1 inside, 2 after
        let mut seen_grandchild = false;
        for p in &sorted {
            // the *contents* of d (strict descendants): d itself sits among its siblings
            let inside = tree::under(d, p) && ***p != **d;
            match (state, inside) {
                (0, true) => state = 1,
                (1, false) => state = 2,
                (2, true) => fail!(
                    "C11/subtree-not-contiguous",
                    "subtree of {d:?} is interrupted before {p:?}"
                ),
                _ => {}
            }
            if inside {
                let direct = depth(p) == depth(d) + 1;
                if direct {
                    ensure!(
                        !seen_grandchild,
                        "C11/child-after-grandchild",
                        "direct child {p:?} of {d:?} sorts after a deeper descendant"
                    );
                } else {
                    seen_grandchild = true;
                }
            }
        }
    }
    Ok(())
}

fn enumerate(tier: Tier, idx: u32, of: u32, cx: &mut Cx) -> CaseResult {
    if crate::probes::mine(idx, of) {
        // scale probe (see probes.rs): walk, written index and listing of a 10 012-file tree
        // with one entry per index hunk
        let (opts, tree) = crate::probes::many_hunks_tree(10_012);
        let sub = cx.dir("many-hunks");
        std::fs::create_dir_all(&sub).unwrap();
        let mut cx2 = crate::engine::sub_cx(cx, sub.clone());
        run(&Case::Walk { opts, tree }, &mut cx2).map_err(|mut f| {
            f.signature = format!("{}/probe-many-hunks", f.signature);
            f
        })?;
        crate::engine::force_remove(&sub);
        cx.add_evals(1);
        cx.inner_nontrivial += 1;
        // ... of 1200 files in directories whose names extend one another, in ONE index hunk
        crate::engine::heartbeat();
        let tree = tree::prefixy_wide_tree(1200, crate::probes::plain_meta());
        let sub = cx.dir("prefixy-wide");
        std::fs::create_dir_all(&sub).unwrap();
        let mut cx2 = crate::engine::sub_cx(cx, sub.clone());
        run(&Case::Walk { opts: crate::ops::Opts { cap: 0, ..crate::ops::Opts::defaults() }, tree }, &mut cx2).map_err(|mut f| {
            f.signature = format!("{}/probe-prefixy-wide", f.signature);
            f
        })?;
        crate::engine::force_remove(&sub);
        cx.add_evals(1);
        cx.inner_nontrivial += 1;
        // ... of more entries than one index hunk takes with the default options
        crate::engine::heartbeat();
        let (opts, tree) = crate::probes::over_default_hunk_tree();
        let sub = cx.dir("over-default-hunk");
        std::fs::create_dir_all(&sub).unwrap();
        let mut cx2 = crate::engine::sub_cx(cx, sub.clone());
        run(&Case::Walk { opts, tree }, &mut cx2).map_err(|mut f| {
            f.signature = format!("{}/probe-over-default-hunk", f.signature);
            f
        })?;
        crate::engine::force_remove(&sub);
        cx.add_evals(1);
        cx.inner_nontrivial += 1;
        // ... and of one very large file between small ones
        crate::engine::heartbeat();
        let (opts, tree) = crate::probes::huge_file_tree();
        let sub = cx.dir("huge-file");
        std::fs::create_dir_all(&sub).unwrap();
        let mut cx2 = crate::engine::sub_cx(cx, sub.clone());
        run(&Case::Walk { opts, tree }, &mut cx2).map_err(|mut f| {
            f.signature = format!("{}/probe-huge-file", f.signature);
            f
        })?;
        crate::engine::force_remove(&sub);
        cx.add_evals(1);
        cx.inner_nontrivial += 1;
    }
    let (idx, of) = (idx as usize, of as usize);
    // (a) ordered pairs over the depth<=4 universe
    let u: Vec<Apath> = universe(ALPHABET, 4).into_iter().map(Apath::from).collect();
    let mut nontrivial = 0u64;
    let mut evals = 0u64;
    for (i, a) in u.iter().enumerate() {
        if i % of != idx {
            continue;
        }
        for b in &u {
            check_pair(a, b)?;
            evals += 1;
            if interesting_pair(a, b) {
                nontrivial += 1;
            }
        }
    }
    // (b) triples over the depth<=3, 6-letter universe
    let u3: Vec<Apath> = universe(ALPHABET6, 3).into_iter().map(Apath::from).collect();
    for (i, a) in u3.iter().enumerate() {
        if i % of != idx {
            continue;
        }
        for b in &u3 {
            for c in &u3 {
                check_triple(a, b, c)?;
            }
            evals += u3.len() as u64;
        }
    }
    // (c) contiguity on the big universe (worker 0) and per-depth slices (others: cheap skip)
    if idx == 0 {
        let small: Vec<Apath> = universe(ALPHABET, 3).into_iter().map(Apath::from).collect();
        check_contiguity(&small)?;
        evals += (small.len() * small.len()) as u64;
    }
    // (d) is_valid over strings built from an alphabet with bad components
    if idx == 1 % of {
        let comps = ["", ".", "..", "a\0b", "a", "é", "a.", "..a", "\0"];
        let mut level: Vec<String> = comps.iter().map(|c| c.to_string()).collect();
        let mut all: Vec<String> = level.clone();
        let maxd = tier.pick(4, 5);
        for _ in 1..maxd {
            let mut next = vec![];
            for p in &level {
                for c in comps {
                    next.push(format!("{p}/{c}"));
                }
            }
            all.extend(next.iter().cloned());
            level = next;
        }
        for s in &all {
            for cand in [s.clone(), format!("/{s}"), format!("{s}/"), format!("/{s}/")] {
                let got = Apath::is_valid(&cand);
                let want = ref_valid(&cand);
                ensure!(
                    got == want,
                    "C11/is-valid",
                    "is_valid({cand:?}) = {got}, documented rule says {want}"
                );
                evals += 1;
                if want != cand.starts_with('/') {
                    nontrivial += 1; // rejected for a component reason, or accepted
                }
            }
        }
        ensure!(Apath::is_valid("/") && !Apath::is_valid(""), "C11/is-valid", "root/empty");
    }
    cx.add_evals(evals);
    cx.inner_nontrivial += nontrivial;
    Ok(())
}

fn path_strategy() -> BoxedStrategy<String> {
    // (names of up to 250 bytes now and then: paths far beyond 255 and beyond 4096 bytes in all)
    prop::collection::vec(tree::name_strategy_with_long(), 1..7)
        .prop_map(|v| format!("/{}", v.join("/")))
        .boxed()
}

fn junk_string() -> BoxedStrategy<String> {
    let comp = prop_oneof![
        3 => tree::name_strategy(),
        1 => Just("".to_string()),
        1 => Just(".".to_string()),
        1 => Just("..".to_string()),
        1 => Just("a\0".to_string()),
        1 => "[ -~]{0,4}",
        1 => (prop::sample::select(vec!["x", "é", "a."]), 30usize..130).prop_map(|(u, n)| u.repeat(n)),
    ];
    (any::<bool>(), prop::collection::vec(comp, 0..6), any::<bool>())
        .prop_map(|(lead, v, trail)| {
            format!("{}{}{}", if lead { "/" } else { "" }, v.join("/"), if trail { "/" } else { "" })
        })
        .boxed()
}

fn strategy(_tier: Tier) -> BoxedStrategy<Case> {
    prop_oneof![
        2 => prop::collection::vec(path_strategy(), 2..12).prop_map(Case::Paths),
        1 => prop::collection::vec(junk_string(), 1..8).prop_map(Case::Strings),
        5 => tree::opts_tree_strategy(TreeCfg { long_names: true, ..TreeCfg::plain() }).prop_map(|(opts, tree)| Case::Walk { opts, tree }),
        1 => (tree::opts_tree_strategy(TreeCfg::plain()), any::<u16>()).prop_map(|((opts, tree), dir)| Case::WalkUndecodable { opts, tree, dir }),
        1 => (tree::opts_tree_strategy(TreeCfg { max_children: 8, links: false, ..TreeCfg::plain() }), any::<u16>(), any::<u16>())
            .prop_map(|((opts, tree), when, trunc)| Case::WalkChanging { opts: Opts { cap: opts.cap.max(4096), ..opts }, tree, when, trunc, blink: None }),
        1 => (tree::opts_tree_strategy(TreeCfg { max_children: 8, links: false, ..TreeCfg::plain() }), any::<u16>(), 1u8..6)
            .prop_map(|((opts, tree), dir, back)| Case::WalkChanging { opts, tree, when: 0, trunc: 0, blink: Some((dir, back)) }),
    ]
    .boxed()
}

fn strictly_increasing(what: &str, paths: &[String]) -> CaseResult {
    for w in paths.windows(2) {
        if ref_cmp(&w[0], &w[1]) != Ordering::Less {
            return Err(Failure::new(
                format!("C11/{what}-not-strictly-increasing"),
                format!("{what}: {:?} is followed by {:?}", w[0], w[1]),
            ));
        }
    }
    Ok(())
}

fn run(case: &Case, cx: &mut Cx) -> CaseResult {
    match case {
        Case::Paths(ps) => {
            let aps: Vec<Apath> = ps.iter().map(|s| Apath::from(s.as_str())).collect();
            for a in &aps {
                for b in &aps {
                    check_pair(a, b)?;
                    for c in &aps {
                        check_triple(a, b, c)?;
                    }
                }
            }
            check_contiguity(&aps)?;
            cx.add_evals((aps.len() * aps.len()) as u64);
            cx.label("random-paths");
            cx.nontrivial = aps.iter().any(|a| aps.iter().any(|b| interesting_pair(a, b)));
            Ok(())
        }
        Case::Strings(ss) => {
            for s in ss {
                let got = Apath::is_valid(s);
                let want = ref_valid(s);
                ensure!(got == want, "C11/is-valid", "is_valid({s:?}) = {got}, documented rule says {want}");
                // parsing text into a path (what the command line does) accepts exactly the
                // well-formed strings and yields that very string
                let parsed = s.parse::<Apath>();
                ensure!(
                    parsed.is_ok() == want && parsed.as_ref().map_or(true, |a| a.to_string() == *s),
                    "C11/parse",
                    "{s:?}.parse::<Apath>() = {:?}, documented rule says well-formed = {want}",
                    parsed.as_ref().map(|a| a.to_string()).map_err(|_| "error")
                );
            }
            cx.add_evals(ss.len() as u64);
            cx.label("random-strings");
            cx.nontrivial = ss.iter().any(|s| s.starts_with('/') && !ref_valid(s)) && ss.iter().any(|s| ref_valid(s));
            Ok(())
        }
        Case::WalkChanging { opts, tree, blink: Some((dir, back)), .. } => {
            let src = cx.dir("src");
            let arch = cx.dir("arch");
            let holding = cx.dir("holding");
            tree::materialise(tree, &src);
            let dirs: Vec<String> = tree.dirs().into_iter().filter(|d| d != "/").collect();
            if dirs.is_empty() {
                return Ok(());
            }
            let d = dirs[(*dir as usize * dirs.len()) >> 16].clone();
            let c = ops::create_archive(&arch);
            ensure!(c.clean(), "C11/create", "{}", c.describe());
            let at_home = tree::fs_path(&src, &d);
            let mut reported = 0u32;
            let back_at = 1 + *back as u32;
            ops::set_on_change(Some(Box::new(move |_apath: &str| {
                reported += 1;
                if reported == 1 {
                    let _ = std::fs::rename(&at_home, &holding);
                } else if reported == back_at {
                    let _ = std::fs::rename(&holding, &at_home);
                }
            })));
            let b = ops::backup(&arch, &None, &src, *opts, &[]);
            ops::set_on_change(None);
            ensure!(b.panic.is_none(), "C11/backup-of-changing-tree-panicked", "{}", b.describe());
            let ra = format::scan(&arch);
            if let Some(band) = ra.bands.get(&0) {
                let mut idx_paths = vec![];
                for h in &band.hunks {
                    match &h.entries {
                        Ok(es) => idx_paths.extend(es.iter().map(|e| e.apath.clone())),
                        Err(e) => fail!("C11/hunk-undecodable", "{}: {e}", h.relpath),
                    }
                }
                strictly_increasing("written-index", &idx_paths)?;
                let l = ops::list_entries(&arch, &None, &Sel::Band(0), "/", &[], 10_000);
                ensure!(l.panic.is_none(), "C11/list-panicked", "{}", l.describe());
                if let Ok(es) = &l.result {
                    let listing: Vec<String> = es.iter().map(|e| e.apath.to_string()).collect();
                    strictly_increasing("listing", &listing)?;
                }
            }
            cx.label("directory-briefly-absent-during-backup");
            cx.nontrivial = dirs.len() >= 2 && tree.file_count() > *back as usize;
            Ok(())
        }
        Case::WalkChanging { opts, tree, when, trunc, .. } => {
            let src = cx.dir("src");
            let arch = cx.dir("arch");
            tree::materialise(tree, &src);
            // files by directory, in walk order
            let mut files: Vec<&String> = tree.0.iter().filter(|(_, n)| matches!(n.kind, tree::Kind::File { len, .. } if len > 0)).map(|(p, _)| p).collect();
            files.sort_by(|a, b| ref_cmp(a, b));
            if files.len() < 2 {
                return Ok(());
            }
            let wi = (*when as usize * (files.len() - 1)) >> 16;
            let trigger = files[wi].clone();
            let later: Vec<&String> = files[wi + 1..]
                .iter()
                .copied()
                .filter(|p| tree::parent_of(p) == tree::parent_of(&trigger))
                .collect();
            let victim = if later.is_empty() { None } else { Some(later[(*trunc as usize * later.len()) >> 16].clone()) };
            let c = ops::create_archive(&arch);
            ensure!(c.clean(), "C11/create", "{}", c.describe());
            let src2 = src.clone();
            let v2 = victim.clone();
            ops::set_on_change(Some(Box::new(move |apath: &str| {
                if apath == trigger {
                    if let Some(v) = &v2 {
                        let _ = std::fs::write(tree::fs_path(&src2, v), b"");
                    }
                }
            })));
            let b = ops::backup(&arch, &None, &src, *opts, &[]);
            ops::set_on_change(None);
            ensure!(b.panic.is_none() && b.result.is_ok(), "C11/backup-of-changing-tree-failed", "{}", b.describe());
            let ra = format::scan(&arch);
            let band = ra.bands.get(&0).ok_or_else(|| Failure::new("C11/no-band", "no b0000"))?;
            let mut idx_paths = vec![];
            for h in &band.hunks {
                match &h.entries {
                    Ok(es) => idx_paths.extend(es.iter().map(|e| e.apath.clone())),
                    Err(e) => fail!("C11/hunk-undecodable", "{}: {e}", h.relpath),
                }
            }
            strictly_increasing("written-index", &idx_paths)?;
            let l = ops::list_entries(&arch, &None, &Sel::Band(0), "/", &[], 10_000);
            ensure!(l.panic.is_none() && l.result.is_ok(), "C11/list-error", "{}", l.describe());
            let listing: Vec<String> = l.result.unwrap().iter().map(|e| e.apath.to_string()).collect();
            strictly_increasing("listing", &listing)?;
            cx.label("tree-changing-during-backup");
            cx.nontrivial = victim.is_some();
            Ok(())
        }
        Case::WalkUndecodable { opts, tree, dir } => {
            let src = cx.dir("src");
            let arch = cx.dir("arch");
            tree::materialise(tree, &src);
            let dirs = tree.dirs();
            let d = dirs[(*dir as usize * dirs.len()) >> 16].clone();
            tree::add_undecodable_twins(tree, &src, &d);
            let mut model: Vec<String> = tree.paths();
            model.sort_by(|a, b| ref_cmp(a, b));
            let holds_model = |what: &str, got: &[String]| -> CaseResult {
                for p in &model {
                    ensure!(got.contains(p), format!("C11/{what}-lacks-a-path"), "{what} lacks {p:?} (undecodable names were put into {d:?})");
                }
                Ok(())
            };
            let w = ops::source_walk(&src, &[]);
            ensure!(w.panic.is_none() && w.result.is_ok(), "C11/walk-failed-beside-undecodable-names", "{}", w.describe());
            let walk = w.result.unwrap();
            strictly_increasing("source-walk", &walk)?;
            holds_model("source-walk", &walk)?;
            let c = ops::create_archive(&arch);
            ensure!(c.clean(), "C11/create", "{}", c.describe());
            let b = ops::backup(&arch, &None, &src, *opts, &[]);
            ensure!(b.panic.is_none() && b.result.is_ok(), "C11/backup-failed-beside-undecodable-names", "{}", b.describe());
            let ra = format::scan(&arch);
            let band = ra.bands.get(&0).ok_or_else(|| Failure::new("C11/no-band", "no b0000"))?;
            let mut idx_paths = vec![];
            for h in &band.hunks {
                match &h.entries {
                    Ok(es) => idx_paths.extend(es.iter().map(|e| e.apath.clone())),
                    Err(e) => fail!("C11/hunk-undecodable", "{}: {e}", h.relpath),
                }
            }
            strictly_increasing("written-index", &idx_paths)?;
            holds_model("written-index", &idx_paths)?;
            let l = ops::list_entries(&arch, &None, &Sel::Band(0), "/", &[], model.len() * 2 + 100);
            ensure!(l.panic.is_none() && l.result.is_ok(), "C11/list-error", "{}", l.describe());
            let listing: Vec<String> = l.result.unwrap().iter().map(|e| e.apath.to_string()).collect();
            strictly_increasing("listing", &listing)?;
            holds_model("listing", &listing)?;
            cx.label("names-that-are-not-utf8-beside");
            cx.nontrivial = true;
            Ok(())
        }
        Case::Walk { opts, tree } => {
            let src = cx.dir("src");
            let arch = cx.dir("arch");
            tree::materialise(tree, &src);
            let mut model: Vec<String> = tree.paths();
            model.sort_by(|a, b| ref_cmp(a, b));

            let w = ops::source_walk(&src, &[]);
            ensure!(w.clean(), "C11/walk-error", "{}", w.describe());
            let walk = w.result.unwrap();
            strictly_increasing("source-walk", &walk)?;
            ensure!(walk == model, "C11/source-walk-set", "walk {walk:?} != model {model:?}");

            let c = ops::create_archive(&arch);
            ensure!(c.clean(), "C11/create", "{}", c.describe());
            let b = ops::backup(&arch, &None, &src, *opts, &[]);
            ensure!(!ops::backup_reported_error(&b), "C11/backup-error", "{}", b.describe());

            let ra = format::scan(&arch);
            let band = ra.bands.get(&0).ok_or_else(|| Failure::new("C11/no-band", "no b0000"))?;
            let mut idx_paths = vec![];
            for h in &band.hunks {
                match &h.entries {
                    Ok(es) => idx_paths.extend(es.iter().map(|e| e.apath.clone())),
                    Err(e) => fail!("C11/hunk-undecodable", "{}: {e}", h.relpath),
                }
            }
            strictly_increasing("written-index", &idx_paths)?;
            ensure!(idx_paths == model, "C11/index-set", "index {idx_paths:?} != model {model:?}");

            let l = ops::list_entries(&arch, &None, &Sel::Band(0), "/", &[], model.len() * 2 + 100);
            ensure!(l.clean(), "C11/list-error", "{}", l.describe());
            let listing: Vec<String> = l.result.unwrap().iter().map(|e| e.apath.to_string()).collect();
            strictly_increasing("listing", &listing)?;
            ensure!(listing == model, "C11/listing-set", "listing {listing:?} != model {model:?}");

            let levels = tree.0.keys().map(|k| depth(k)).max().unwrap_or(0);
            // (a quadratic scan that only feeds the evidence labels: skipped for the largest probe)
            let extending = model.len() <= 20_000 && model.iter().any(|a| {
                model.iter().any(|b| {
                    a != b && tree::parent_of(a) == tree::parent_of(b) && tree::base_name(b).starts_with(tree::base_name(a))
                })
            });
            cx.label("tree-walk");
            cx.label_if(band.hunks.len() >= 2, "multi-hunk");
            cx.label_if(extending, "extending-siblings");
            cx.nontrivial = levels >= 2 && extending;
            Ok(())
        }
    }
}

pub fn prop() -> Prop<Case> {
    Prop {
        id: "C11",
        level: "exploration",
        rule: "enumeration: every ordered pair of the 4681 paths of depth<=4 over {a, a., a-, 'a b', b, é, .x, ~} (cmp vs documented order, antisymmetry, equality), every triple of the 259 paths of depth<=3 over 6 of them (transitivity), contiguity/children-first on the depth<=3 universe, is_valid on every string of <=4 (thorough 5) components over {'', ., .., a\\0b, a, é, a., ..a, \\0} x leading/trailing slash; generated: random longer paths/strings and trees (source walk, listing and independently decoded index each strictly increasing under the reference order and equal to the model's path set). Non-trivial pair = distinct paths sharing the first component whose depths differ or one textually prefixes the other; non-trivial tree = >=2 directory levels with sibling names that extend one another; enumerated items are distinct by construction, generated ones by case hash. A tenth of the tree cases truncate a later file of the same directory while the backup runs (index and listing must stay strictly increasing); three fixed scale probes per run (10 012 files, one entry per hunk; 1200 files under directories whose names extend one another, all in one hunk; one 272 MiB file between small ones); generated paths and trees now and then have names of up to 250 bytes (paths beyond 255 and beyond 4096 bytes); since round 6 a further tenth move a directory out of the tree when the backup reports its first file and back a few reported files later, trees may be 9-44 levels deep, and a fourth probe walks 100 200 files with default options; since round 7 every generated string is also parsed (FromStr): accepted exactly when well-formed, yielding that very string; names may end in white space; since round 8 a case kind in which one directory also holds names that are not valid UTF-8, pairwise differing only in their invalid bytes (conserve leaves them out): walk, written index and listing stay strictly increasing and hold every path of the tree",
        assumptions: &[
            "reference order written from doc/format.md on byte slices, independent of src/apath.rs",
            "release-like build: conserve's debug-only order assertions are compiled out, so the oracle is the harness's own",
        ],
        cases: |t| t.pick(4000, 150_000),
        strategy,
        run,
        enumerate: Some(enumerate),
        exhaustive: |_| false,
        max_shrink_iters: 400,
    }
}
