//! C09 — validate is accurate: silent on healthy archives, loud on damage.

use proptest::prelude::*;
use serde::{Deserialize, Serialize};
use serde_json::json;

use crate::damage::{self, Dmg, FileClass};
use crate::engine::{CaseResult, Cx, Failure, Prop, Tier};
use crate::format;
use crate::history::{BandState, HistCfg, History, Op, StepKind, World, history_strategy};
use crate::ops::{self, Sel};
use crate::scen::{self, copy_dir};
use crate::tree::{self, CmpOpts, TreeCfg};
use crate::{ensure, fail};

#[derive(Debug, Clone, Serialize, Deserialize)]
pub enum Case {
    /// Healthy side: validate after every step of a history.
    Healthy(History),
    /// Damage side: archive from a short history, every file x every damage.
    Damaged { hist: History, flips: Vec<u16> },
}

fn strategy(tier: Tier) -> BoxedStrategy<Case> {
    let healthy = HistCfg {
        tree: TreeCfg { max_depth: 3, max_children: 4, max_len: 3000, ..TreeCfg::full() },
        max_ops: tier.pick(12, 24),
        interrupts: true,
        deletes: true,
    };
    let damaged = HistCfg {
        tree: TreeCfg { max_children: 4, ..scen::small_cfg() },
        max_ops: 5,
        interrupts: true,
        deletes: false,
    };
    prop_oneof![
        8 => history_strategy(healthy).prop_map(Case::Healthy),
        1 => (history_strategy(damaged), prop::collection::vec(any::<u16>(), 2..5))
            .prop_map(|(hist, flips)| Case::Damaged { hist, flips }),
    ]
    .boxed()
}

fn run_healthy(h: &History, cx: &mut Cx) -> CaseResult {
    let mut w = World::for_history(&cx.scratch, h);
    let mut evals = 0u64;
    let mut interrupted_with_header = false;
    let mut gc = false;
    for (i, op) in h.ops.iter().enumerate() {
        // the healthy side covers stop-the-world interruptions, not torn (zero-length) leftovers
        let op = match op {
            Op::BackupInterrupted { opts, k, .. } => Op::BackupInterrupted { opts: *opts, k: *k, torn: false },
            o => o.clone(),
        };
        let step = w.apply(&op);
        match &step {
            StepKind::Mutated => continue,
            StepKind::Backup { interrupted, .. } => {
                if *interrupted {
                    interrupted_with_header = true;
                }
            }
            StepKind::Delete { report, dry_run, .. } => {
                if report.is_ok() && !dry_run {
                    gc = true;
                }
            }
        }
        let ra = format::scan(&w.arch);
        if ra.bands.values().any(|b| !b.head.present_nonempty()) {
            cx.label("headless-band-skip");
            continue; // an interruption before the header was written: outside the statement
        }
        for quick in [false, true] {
            let v = ops::validate(&w.arch, &None, quick);
            evals += 1;
            if let Some(p) = &v.panic {
                fail!(format!("C09/validate-panic@{}", ops::panic_site(p)), "step {i}: {p}");
            }
            ensure!(
                v.clean(),
                if quick { "C09/healthy-archive-reported/quick" } else { "C09/healthy-archive-reported/full" },
                "after step {i} ({op:?}) validate(quick={quick}) on a fault-free archive reported: {}",
                v.describe()
            );
        }
    }
    cx.add_evals(evals);
    cx.label("healthy");
    cx.label_if(interrupted_with_header, "has-interrupted-band");
    cx.label_if(gc, "after-delete-or-gc");
    cx.nontrivial = w.bands.len() >= 2 && (interrupted_with_header || gc);
    Ok(())
}

fn run_damaged(h: &History, flips: &[u16], cx: &mut Cx) -> CaseResult {
    let mut w = World::for_history(&cx.scratch, h);
    for op in &h.ops {
        let _ = w.apply(op);
    }
    std::fs::create_dir_all(cx.dir("r")).unwrap();
    // In a quarter of the cases the archive also holds the lock file of a collector that was
    // killed (or is at work elsewhere): what validate owes after a damage does not depend on it.
    let stale_lock = flips.first().map_or(false, |f| f % 4 == 0);
    if stale_lock {
        std::fs::write(w.arch.join("GC_LOCK"), b"{}\n").unwrap();
        cx.label("damaged-with-gc-lock-present");
    }
    let pristine = cx.dir("pristine");
    copy_dir(&w.arch, &pristine);
    // Versions with a well-formed tail: a band closed only by the zero-length leftover of a
    // killed tail write carries no hunk count, so a missing trailing hunk is undetectable.
    let pre = format::scan(&pristine);
    let complete: Vec<(u32, &tree::Tree)> = w
        .complete_bands()
        .into_iter()
        .filter(|(id, _)| pre.bands.get(id).map(|b| b.tail.present_nonempty()).unwrap_or(false))
        .collect();
    if complete.is_empty() {
        cx.label("damaged-no-complete-band");
        return Ok(());
    }
    // Incomplete versions that have a head: no model snapshot exists for them, so the
    // oracle is "restores the same as before the damage" (tree and whether errors were reported).
    let incomplete: Vec<u32> = pre
        .bands
        .iter()
        .filter(|(_, b)| b.head.present_nonempty() && b.tail.is_absent())
        .map(|(id, _)| *id)
        .collect();
    let mut incomplete_before: Vec<(u32, tree::Snapshot, bool)> = vec![];
    for id in &incomplete {
        let dest = cx.dir("r").join(format!("pre{id}"));
        let r = ops::restore(&w.arch, &None, &dest, &Sel::Band(*id), None, &[], false);
        if r.panic.is_none() && r.result.is_ok() {
            incomplete_before.push((*id, tree::snapshot(&dest), r.reported_error()));
        }
        crate::engine::force_remove(&dest);
    }
    let last_hunks_of_incomplete: Vec<String> = pre
        .bands
        .values()
        .filter(|b| !b.tail.present_nonempty())
        .filter_map(|b| b.hunks.last().map(|h| h.relpath.clone()))
        .collect();
    let mut files = format::all_files(&pristine);
    let only = cx.only_inner.clone();
    // (an interrupted version above four-digit ids: when the damage hides the band below it,
    // stitching walks back one id at a time, ten thousand operations per restore; such
    // archives get fewer damages in the quick tier)
    let costly = pre.bands.keys().next().map_or(false, |m| *m >= 1000) && !incomplete.is_empty();
    if cx.tier == Tier::Quick && only.is_none() {
        // (tiny block sizes can turn one file into thousands of block files)
        files = crate::scen::thin(&files, if costly { 8 } else { 80 });
    }
    let mut evals = 0u64;
    let mut nontrivial = 0u64;
    let mut no_effect = 0u64;
    let mut n = 0u32;
    for f in &files {
        let class = damage::classify(f);
        if class == FileClass::Other {
            continue;
        }
        let mut dmgs: Vec<Dmg> = Dmg::BASIC.to_vec();
        if class == FileClass::Block {
            dmgs.extend(flips.iter().map(|f| Dmg::Flip(*f)));
        }
        for d in dmgs {
            if class == FileClass::BandTail && d == Dmg::Delete {
                continue; // absence of the tail is the legal "incomplete" state
            }
            let inner = json!({"file": f, "damage": d});
            if only.as_ref().map_or(false, |o| *o != inner) {
                continue;
            }
            crate::engine::heartbeat();
            crate::engine::force_remove(&w.arch);
            copy_dir(&pristine, &w.arch);
            if !damage::apply(&w.arch, f, d) {
                continue;
            }
            // does some complete version no longer restore exactly?
            let mut broken: Option<String> = None;
            for (id, t) in &complete {
                n += 1;
                let dest = cx.dir("r").join(format!("d{n}"));
                let r = ops::restore(&w.arch, &None, &dest, &Sel::Band(*id), None, &[], false);
                let exact = r.clean()
                    && tree::first_diff(&tree::expected(t), &tree::snapshot(&dest), CmpOpts::restore()).is_none();
                crate::engine::force_remove(&dest);
                if !exact {
                    broken = Some(format!("version {id}: {}", if r.clean() { "restored tree differs".to_string() } else { r.describe() }));
                    break;
                }
            }
            if broken.is_none() && !(d == Dmg::Delete && last_hunks_of_incomplete.contains(f)) {
                for (id, before, before_reported) in &incomplete_before {
                    n += 1;
                    let dest = cx.dir("r").join(format!("d{n}"));
                    let r = ops::restore(&w.arch, &None, &dest, &Sel::Band(*id), None, &[], false);
                    // directories that the version does not list are created with the current time
                    let diff = tree::first_diff(before, &tree::snapshot(&dest), CmpOpts { root_meta: false, dir_mtime: false, identity: false, mtime: true });
                    let same = r.panic.is_none()
                        && r.result.is_ok()
                        && r.reported_error() == *before_reported
                        && diff.is_none();
                    crate::engine::force_remove(&dest);
                    if !same {
                        broken = Some(format!("interrupted version {id} no longer restores as it did before the damage ({}; before reported={before_reported}; diff={diff:?})", r.describe()));
                        break;
                    }
                }
            }
            evals += 1;
            if broken.is_none() {
                no_effect += 1;
                continue;
            }
            nontrivial += 1;
            let class_name = format!("{class:?}").to_lowercase();
            let res: CaseResult = (|| {
                let v = ops::validate(&w.arch, &None, false);
                if let Some(p) = &v.panic {
                    fail!(format!("C09/validate-panic@{}", ops::panic_site(p)), "{f} {d:?}: {p}");
                }
                ensure!(
                    v.reported_error(),
                    format!("C09/damage-not-reported/full/{class_name}/{}", d.name()),
                    "{f} {}: {} but full validate reported nothing",
                    d.name(),
                    broken.as_ref().unwrap()
                );
                if d == Dmg::Delete {
                    let v = ops::validate(&w.arch, &None, true);
                    if let Some(p) = &v.panic {
                        fail!(format!("C09/validate-panic@{}", ops::panic_site(p)), "{f} {d:?}: {p}");
                    }
                    ensure!(
                        v.reported_error(),
                        format!("C09/damage-not-reported/quick/{class_name}/delete"),
                        "{f} deleted: {} but quick validate reported nothing",
                        broken.as_ref().unwrap()
                    );
                }
                Ok(())
            })();
            if let Err(fl) = res {
                cx.inner_failure(fl.with_inner(inner))?;
            }
        }
    }
    cx.add_evals(evals);
    cx.inner_nontrivial += nontrivial;
    cx.label("damaged");
    if no_effect > 0 {
        cx.label("some-damage-without-effect");
    }
    Ok(())
}

fn run(case: &Case, cx: &mut Cx) -> CaseResult {
    match case {
        Case::Healthy(h) => {
            let t0 = std::time::Instant::now();
            let r = run_healthy(h, cx);
            if std::env::var("VERIF_TIMING").is_ok() {
                eprintln!("C09 healthy case: {:?} ops={} first={}", t0.elapsed(), h.ops.len(), h.first_band_id);
            }
            r
        }
        Case::Damaged { hist, flips } => {
            let t0 = std::time::Instant::now();
            let r = run_damaged(hist, flips, cx);
            if std::env::var("VERIF_TIMING").is_ok() {
                eprintln!("C09 damaged case: {:?} ops={} first={} evals={}", t0.elapsed(), hist.ops.len(), hist.first_band_id, cx.evals);
            }
            r
        }
    }
}

/// Scale probes (see probes.rs): validate must stay silent on a healthy 10 015-hunk version
/// and on multi-MiB blocks, and must report hunks lost around the second index sub-directory.
thread_local! { static T0: std::time::Instant = std::time::Instant::now(); }

fn enumerate(_tier: Tier, idx: u32, of: u32, cx: &mut Cx) -> CaseResult {
    if !crate::probes::mine(idx, of) {
        return Ok(());
    }
    T0.with(|_| ());
    for (name, (opts, tree)) in [
        ("many-hunks", crate::probes::many_hunks_tree(10_012)),
        ("big-blocks", crate::probes::big_blocks_tree()),
        ("big-hunk", crate::probes::big_hunk_tree()),
    ] {
        crate::engine::heartbeat();
        let sub = cx.dir(name);
        std::fs::create_dir_all(&sub).unwrap();
        let w = World::new(&sub, &tree);
        let b = ops::backup(&w.arch, &None, &w.src, opts, &[]);
        ensure!(!ops::backup_reported_error(&b), "C09/probe-setup", "{}", b.describe());
        for quick in [false, true] {
            crate::engine::heartbeat();
            let t0 = std::time::Instant::now();
            let v = ops::validate(&w.arch, &None, quick);
            if std::env::var("VERIF_TIMING").is_ok() {
                eprintln!("C09 probe {name} validate(quick={quick}): {:?}", t0.elapsed());
            }
            ensure!(
                v.clean(),
                format!("C09/healthy-archive-reported/probe-{name}"),
                "validate(quick={quick}) on a fault-free archive reported: {}",
                v.describe()
            );
            cx.add_evals(1);
        }
        if name == "many-hunks" {
            let pristine = sub.join("pristine");
            copy_dir(&w.arch, &pristine);
            let pre = format::scan(&pristine);
            let hunks = &pre.bands[&0].hunks;
            for hunk_no in [9_999usize, 10_000, hunks.len() - 1] {
                crate::engine::heartbeat();
                crate::engine::force_remove(&w.arch);
                copy_dir(&pristine, &w.arch);
                let f = &hunks[hunk_no].relpath;
                ensure!(damage::apply(&w.arch, f, Dmg::Delete), "C09/harness/probe", "no damage");
                for quick in [false, true] {
                    let v = ops::validate(&w.arch, &None, quick);
                    ensure!(v.panic.is_none(), "C09/validate-panic/probe-many-hunks", "{}", v.describe());
                    ensure!(
                        v.reported_error(),
                        format!("C09/damage-not-reported/{}/hunk/delete/probe-many-hunks", if quick { "quick" } else { "full" }),
                        "{f} deleted from a complete 10 015-hunk version; validate(quick={quick}) reported nothing"
                    );
                    cx.add_evals(1);
                    cx.inner_nontrivial += 1;
                }
            }
        }
        crate::engine::force_remove(&sub);
        if std::env::var("VERIF_TIMING").is_ok() {
            eprintln!("C09 probe {name} done at {:?}", T0.with(|t| t.elapsed()));
        }
    }
    // more than 10 000 blocks: one file of 1 300 000 bytes stored in 100-byte blocks; one block
    // overwritten with garbage of equal length must be reported by full validate
    crate::engine::heartbeat();
    let m = crate::probes::plain_meta();
    let mut t = tree::Tree(Default::default());
    t.0.insert("/".into(), tree::Node { kind: tree::Kind::Dir, meta: tree::Meta { mode: 0o755, ..m } });
    t.0.insert("/many-blocks".into(), tree::Node { kind: tree::Kind::File { pool: 5, len: 1_300_000 }, meta: m });
    let sub = cx.dir("many-blocks");
    std::fs::create_dir_all(&sub).unwrap();
    let w = World::new(&sub, &t);
    let b = ops::backup(&w.arch, &None, &w.src, ops::Opts { hunk: 1000, block: 100, cap: 10 }, &[]);
    ensure!(!ops::backup_reported_error(&b), "C09/probe-setup", "{}", b.describe());
    let v = ops::validate(&w.arch, &None, false);
    ensure!(v.clean(), "C09/healthy-archive-reported/probe-many-blocks", "{}", v.describe());
    let pristine = sub.join("pristine");
    copy_dir(&w.arch, &pristine);
    let pre = format::scan(&pristine);
    ensure!(pre.blocks.len() > 10_500, "C09/harness/probe", "only {} blocks", pre.blocks.len());
    let blocks: Vec<&String> = pre.blocks.values().map(|b| &b.relpath).collect();
    for i in [0usize, blocks.len() / 3, blocks.len() / 2, blocks.len() - 1] {
        crate::engine::heartbeat();
        crate::engine::force_remove(&w.arch);
        copy_dir(&pristine, &w.arch);
        ensure!(damage::apply(&w.arch, blocks[i], Dmg::Garbage), "C09/harness/probe", "no damage");
        let v = ops::validate(&w.arch, &None, false);
        ensure!(v.panic.is_none(), "C09/validate-panic/probe-many-blocks", "{}", v.describe());
        ensure!(
            v.reported_error(),
            "C09/damage-not-reported/full/block/garbage/probe-many-blocks",
            "block {} of a 13 000-block archive overwritten with garbage; full validate reported nothing",
            blocks[i]
        );
        cx.add_evals(1);
        cx.inner_nontrivial += 1;
    }
    crate::engine::force_remove(&sub);
    Ok(())
}

pub fn prop() -> Prop<Case> {
    Prop {
        id: "C09",
        level: "fault_enumeration",
        rule: "two generated case kinds. Healthy: history as C02 (interruptions are stop-the-world before a storage operation; steps during which a band without header exists are skipped) with validate(full) and validate(quick) after every archive operation: must return Ok with no monitor error and no ERROR event. Damaged: archive from a history of <=5 ops; inner domain enumerated: every file of the archive (header, heads, tails, hunks, blocks; the quick tier takes at most 80 evenly spaced files of an archive) x {delete, truncate to 0, truncate to half, overwrite with garbage of equal length} + generated bit flips for blocks, BANDTAIL deletion excluded; for each, every complete version is restored and compared with its model snapshot and every interrupted version that has a head is restored and compared with its own pre-damage restore (deleting the last hunk of an interrupted version is exempt: indistinguishable from an earlier interruption), and if any no longer restores as before full validate must report (Err, monitor error or ERROR event), and for deletions quick validate too. Non-trivial inner = damage that changes some restore (no-effect damages are counted separately in the histogram); non-trivial healthy case = >=2 versions with an interrupted band or a delete/gc; inner values distinct by construction. Fixed scale probes per run: validate silent on a healthy 10 015-hunk version, on multi-MiB blocks and on a version whose single index hunk exceeds 32 MiB; hunks 9 999, 10 000 and the last deleted must each be reported by full and quick validate; and in an archive of 13 000 blocks four garbled blocks (first, one third, half, last in name order) must each be reported by full validate; since round 6 a quarter of the damaged archives also hold a collector's lock file (GC_LOCK)",
        assumptions: &[
            "'reported' is lenient: Err, a Monitor error, or a tracing event at ERROR level",
            "zero-length leftovers of killed writes are not part of the healthy side",
        ],
        cases: |t| t.pick(320, 4000),
        strategy,
        run,
        enumerate: Some(enumerate),
        exhaustive: |_| false,
        max_shrink_iters: 100,
    }
}
