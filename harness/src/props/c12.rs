//! C12 — selecting a subtree returns exactly that subtree.

use conserve::Apath;
use proptest::prelude::*;
use serde::{Deserialize, Serialize};

use crate::engine::{CaseResult, Cx, Failure, Prop, Tier};
use crate::ops::{self, Opts, Sel};
use crate::props::c11::{ALPHABET, universe};
use crate::tree::{self, CmpOpts, Tree, TreeCfg, under};
use crate::{ensure, fail};

#[derive(Debug, Clone, Serialize, Deserialize)]
pub struct Case {
    pub opts: Opts,
    pub tree: Tree,
    /// Extra (possibly non-existent) subtree paths to list.
    pub extra: Vec<String>,
    /// Optionally a second, interrupted backup after these edits (stopped before its
    /// (k+4)-th mutating storage operation): subtree selection of the stitched version.
    #[serde(default)]
    pub interrupted: Option<(Vec<crate::history::Edit>, u16)>,
}

fn enumerate(_tier: Tier, idx: u32, of: u32, cx: &mut Cx) -> CaseResult {
    if crate::probes::mine(idx, of) {
        probe(cx)?;
    }
    let (idx, of) = (idx as usize, of as usize);
    let alphabet: Vec<&str> = ALPHABET.iter().copied().chain(["éa", "日", "ab"]).collect();
    let u: Vec<Apath> = universe(&alphabet, 3).into_iter().map(Apath::from).collect();
    let mut evals = 0u64;
    let mut nontrivial = 0u64;
    for (i, a) in u.iter().enumerate() {
        if i % of != idx {
            continue;
        }
        for b in &u {
            let got = a.is_prefix_of(b);
            let want = under(a, b);
            ensure!(
                got == want,
                "C12/is-prefix-of",
                "{a:?}.is_prefix_of({b:?}) = {got}, whole-component containment says {want}"
            );
            evals += 1;
            if **a != *"/" && a != b && b.starts_with(&**a) && (!a.is_ascii() || !want) {
                nontrivial += 1;
            }
        }
    }
    cx.add_evals(evals);
    cx.inner_nontrivial += nontrivial;
    Ok(())
}

fn strategy(_tier: Tier) -> BoxedStrategy<Case> {
    let cfg = TreeCfg {
        prefixy_names: true,
        max_children: 6,
        ..TreeCfg::plain()
    };
    let extra = prop::collection::vec(
        prop::collection::vec(tree::name_strategy_for(cfg), 1..4).prop_map(|v| format!("/{}", v.join("/"))),
        0..4,
    );
    let second = prop::option::weighted(
        0.4,
        (prop::collection::vec(crate::history::edit_strategy(cfg), 1..5), 0u16..25),
    );
    (tree::opts_tree_strategy(cfg), extra, second)
        .prop_map(|((opts, tree), extra, interrupted)| Case { opts, tree, extra, interrupted })
        .boxed()
}

fn run(case: &Case, cx: &mut Cx) -> CaseResult {
    let src = cx.dir("src");
    let arch = cx.dir("arch");
    tree::materialise(&case.tree, &src);
    let c = ops::create_archive(&arch);
    ensure!(c.clean(), "C12/create", "{}", c.describe());
    let b = ops::backup(&arch, &None, &src, case.opts, &[]);
    ensure!(!ops::backup_reported_error(&b), "C12/backup-error", "{}", b.describe());

    let full = ops::list_entries(&arch, &None, &Sel::Band(0), "/", &[], 10_000);
    ensure!(full.clean(), "C12/list-error", "{}", full.describe());
    let full = full.result.unwrap();
    let full_paths: Vec<String> = full.iter().map(|e| e.apath.to_string()).collect();

    std::fs::create_dir_all(cx.dir("r")).unwrap();
    let full_dest = cx.dir("r").join("full");
    let r = ops::restore(&arch, &None, &full_dest, &Sel::Band(0), None, &[], false);
    ensure!(r.clean(), "C12/full-restore-error", "{}", r.describe());
    let full_snap = tree::snapshot(&full_dest);

    let mut subtrees: Vec<String> = case.tree.paths();
    for e in &case.extra {
        if !subtrees.contains(e) {
            subtrees.push(e.clone());
        }
    }
    let mut evals = 0u64;
    for s in &subtrees {
        let l = ops::list_entries(&arch, &None, &Sel::Band(0), s, &[], 10_000);
        ensure!(l.clean(), "C12/subtree-list-error", "subtree {s:?}: {}", l.describe());
        let got = l.result.unwrap();
        let want: Vec<&conserve::IndexEntry> = full.iter().filter(|e| under(s, &e.apath)).collect();
        let got_paths: Vec<String> = got.iter().map(|e| e.apath.to_string()).collect();
        let want_paths: Vec<String> = want.iter().map(|e| e.apath.to_string()).collect();
        if got_paths != want_paths {
            let class = if !s.is_ascii() { "non-ascii" } else { "ascii" };
            return Err(Failure::new(
                format!("C12/subtree-listing/{class}"),
                format!("listing subtree {s:?}: got {got_paths:?}, want {want_paths:?} (full {full_paths:?})"),
            ));
        }
        for (g, w) in got.iter().zip(want.iter()) {
            ensure!(g == *w, "C12/subtree-listing-entry-differs", "subtree {s:?}: {g:?} != {w:?}");
        }
        evals += 1;
    }
    // Restores: S over the directories of the version.
    for (i, s) in case.tree.dirs().iter().enumerate() {
        let dest = cx.dir("r").join(format!("s{i}"));
        let r = ops::restore(&arch, &None, &dest, &Sel::Band(0), Some(s), &[], false);
        ensure!(r.clean(), "C12/subtree-restore-error", "subtree {s:?}: {}", r.describe());
        let snap = tree::snapshot(&dest);
        // expected paths: everything under S, plus bare ancestors of S
        let mut want: tree::Snapshot = full_snap
            .iter()
            .filter(|(p, _)| under(s, p))
            .map(|(p, n)| (p.clone(), n.clone()))
            .collect();
        let mut anc = tree::parent_of(s);
        let mut ancestors = vec![];
        while let Some(a) = anc {
            ancestors.push(a.to_string());
            anc = tree::parent_of(a);
        }
        for p in snap.keys() {
            if !want.contains_key(p) && !ancestors.contains(p) {
                let class = if !s.is_ascii() { "non-ascii" } else { "ascii" };
                fail!(
                    format!("C12/subtree-restore-extra/{class}"),
                    "restoring subtree {s:?} created {p:?}, which is not under it"
                );
            }
        }
        for a in &ancestors {
            match snap.get(a) {
                Some(n) if n.kind == 'd' => {}
                other => fail!("C12/subtree-restore-ancestor", "ancestor {a:?} of {s:?}: {other:?}"),
            }
            want.remove(a);
        }
        let got: tree::Snapshot = snap.into_iter().filter(|(p, _)| !ancestors.contains(p)).collect();
        if let Some((field, msg)) = tree::first_diff(&want, &got, CmpOpts::restore()) {
            return Err(Failure::new(
                format!("C12/subtree-restore-diff/{field}"),
                format!("subtree {s:?}: {msg}"),
            ));
        }
        evals += 1;
    }
    // ... and when the listings are made one after another through ONE opened StoredTree value
    {
        let subs: Vec<String> = subtrees.iter().cloned().collect();
        let l = ops::list_many_through_one_tree(&arch, &Sel::Band(0), &subs, 10_000);
        ensure!(l.clean(), "C12/subtree-list-error/one-stored-tree", "{}", l.describe());
        let all = l.result.unwrap();
        for (s, got) in subs.iter().zip(all.iter().skip(1)) {
            let want: Vec<String> = all[0].iter().filter(|p| under(s, p)).cloned().collect();
            if *got != want {
                return Err(Failure::new(
                    "C12/subtree-listing/one-stored-tree",
                    format!("subtree {s:?} listed through a StoredTree value that had been listed before: got {got:?}, the full listing filtered gives {want:?}"),
                ));
            }
            evals += 1;
        }
    }
    // The same relation on a stitched (interrupted) version.
    let mut stitched = false;
    if let Some((edits, k)) = &case.interrupted {
        let mut t1 = case.tree.clone();
        for e in edits {
            crate::history::apply_edit(&mut t1, e);
        }
        // Half of the time a directory that has content becomes a file or a symlink: if the
        // interrupted version got as far as recording it, the version holds that entry AND,
        // from the older version, what used to be below it.
        if *k % 2 == 0 {
            let with_content: Vec<String> = t1
                .dirs()
                .into_iter()
                .filter(|d| d != "/" && t1.0.keys().any(|p| tree::parent_of(p) == Some(d.as_str())))
                .collect();
            if !with_content.is_empty() {
                let d = with_content[(*k as usize / 2) % with_content.len()].clone();
                let meta = t1.0[&d].meta;
                t1.remove_subtree(&d);
                let kind = if *k % 4 == 0 { tree::Kind::File { pool: 3, len: 17 } } else { tree::Kind::Link { target: "elsewhere".into() } };
                t1.0.insert(d, tree::Node { kind, meta });
                cx.label("directory-with-content-became-file-or-link");
            }
        }
        tree::rematerialise(&case.tree, &t1, &src);
        let ctl = crate::hooks::Ctl::new(&arch, crate::hooks::Plan::FreezeAtMutating { k: *k as usize + 4, torn: false });
        let hook: ops::Hook = Some(ctl.clone() as std::sync::Arc<dyn conserve::transport::verif::Interceptor>);
        let b = ops::backup(&arch, &hook, &src, case.opts, &[]);
        ensure!(b.panic.is_none(), "C12/backup-panic", "{}", b.describe());
        let ra = crate::format::scan(&arch);
        if ctl.triggered() && ra.bands.get(&1).map(|b| b.head.present_nonempty() && b.tail.is_absent()).unwrap_or(false) {
            stitched = true;
            let full1 = ops::list_entries(&arch, &None, &Sel::Band(1), "/", &[], 10_000);
            ensure!(full1.clean(), "C12/stitched-list-error", "{}", full1.describe());
            let full1 = full1.result.unwrap();
            let mut subs: Vec<String> = full1.iter().map(|e| e.apath.to_string()).collect();
            for p in case.tree.paths() {
                if !subs.contains(&p) {
                    subs.push(p);
                }
            }
            for s in &subs {
                let l = ops::list_entries(&arch, &None, &Sel::Band(1), s, &[], 10_000);
                ensure!(l.clean(), "C12/stitched-subtree-list-error", "subtree {s:?}: {}", l.describe());
                let got: Vec<String> = l.result.unwrap().iter().map(|e| e.apath.to_string()).collect();
                let want: Vec<String> = full1.iter().filter(|e| under(s, &e.apath)).map(|e| e.apath.to_string()).collect();
                if got != want {
                    return Err(Failure::new(
                        "C12/stitched-subtree-listing",
                        format!("interrupted version, subtree {s:?}: got {got:?}, the full listing filtered gives {want:?}"),
                    ));
                }
                evals += 1;
            }
        }
    }
    cx.label_if(stitched, "stitched-version");
    cx.add_evals(evals);
    let nontrivial_s = subtrees.iter().any(|s| {
        s != "/"
            && (!s.is_ascii()
                || full_paths.iter().any(|p| p.starts_with(s.as_str()) && p != s && !under(s, p)))
    });
    cx.label_if(subtrees.iter().any(|s| !s.is_ascii()), "non-ascii-subtree");
    cx.label_if(
        subtrees.iter().any(|s| s != "/" && full_paths.iter().any(|p| p.starts_with(s.as_str()) && p != s && !under(s, p))),
        "textual-prefix-sibling",
    );
    cx.label_if(case.tree.dirs().len() >= 3, "3+dirs");
    cx.nontrivial = nontrivial_s;
    Ok(())
}

/// Scale probe (see probes.rs): subtree selection on a version with 10 015 index hunks.
fn probe(cx: &mut Cx) -> CaseResult {
    let (opts, tree) = crate::probes::many_hunks_tree(10_012);
    let sub = cx.dir("many-hunks");
    std::fs::create_dir_all(sub.join("r")).unwrap();
    let src = sub.join("src");
    let arch = sub.join("arch");
    tree::materialise(&tree, &src);
    ensure!(ops::create_archive(&arch).clean(), "C12/probe-setup", "create");
    let b = ops::backup(&arch, &None, &src, opts, &[]);
    ensure!(!ops::backup_reported_error(&b), "C12/probe-setup", "{}", b.describe());
    let full = ops::list_entries(&arch, &None, &Sel::Band(0), "/", &[], 100_000);
    ensure!(full.clean(), "C12/probe-many-hunks/list-error", "{}", full.describe());
    let full = full.result.unwrap();
    for s in ["/w1", "/w0/f00010", "/w", "/w1/"] {
        if !crate::format::ref_valid(s) {
            continue;
        }
        crate::engine::heartbeat();
        let l = ops::list_entries(&arch, &None, &Sel::Band(0), s, &[], 100_000);
        ensure!(l.clean(), "C12/probe-many-hunks/list-error", "{}", l.describe());
        let got: Vec<String> = l.result.unwrap().iter().map(|e| e.apath.to_string()).collect();
        let want: Vec<String> = full.iter().filter(|e| under(s, &e.apath)).map(|e| e.apath.to_string()).collect();
        ensure!(
            got == want,
            "C12/subtree-listing/probe-many-hunks",
            "subtree {s:?}: {} entries listed, {} expected; first difference {:?}",
            got.len(),
            want.len(),
            got.iter().zip(want.iter()).find(|(a, b)| a != b)
        );
        cx.add_evals(1);
        cx.inner_nontrivial += 1;
    }
    crate::engine::heartbeat();
    let dest = sub.join("r").join("w1");
    let r = ops::restore(&arch, &None, &dest, &Sel::Band(0), Some("/w1"), &[], false);
    ensure!(r.clean(), "C12/probe-many-hunks/restore-error", "{}", r.describe());
    let snap = tree::snapshot(&dest);
    let want: tree::Snapshot = tree::expected(&tree).into_iter().filter(|(p, _)| under("/w1", p)).collect();
    let got: tree::Snapshot = snap.into_iter().filter(|(p, _)| p != "/").collect();
    if let Some((field, msg)) = tree::first_diff(&want, &got, CmpOpts::restore()) {
        fail!(format!("C12/subtree-restore-diff/{field}/probe-many-hunks"), "{msg}");
    }
    crate::engine::force_remove(&sub);
    Ok(())
}

pub fn prop() -> Prop<Case> {
    Prop {
        id: "C12",
        level: "exploration",
        rule: "enumeration: is_prefix_of vs byte-wise whole-component containment on every ordered pair of the depth<=3 universe over {a, a., a-, 'a b', b, é, .x, ~, éa, 日, ab}; generated: (options, tree with multi-byte and mutually-extending sibling names) backed up, then for S = every entry plus generated absent paths: listing(S) == full listing filtered by containment (entry-for-entry), and for S = every directory: restore(S) creates exactly the paths under S (+ bare ancestors) with attributes identical to the full restore; in 40% of cases a second backup after generated edits is interrupted and the listing relation is also checked on the stitched version for every path of either version. Non-trivial = some S is non-ASCII or has an entry that textually extends it without being under it; distinct by case hash / by construction for enumerated pairs; plus one fixed scale probe (listing and restoring a subtree of a 10 015-hunk version); since round 7 half of the interrupted cases first turn a directory with content into a file or a symlink, names may end in white space (space, tab, NBSP, ideographic space, newline) and every other subtree selection is built by parsing its text as the command line does; since round 9 every subtree is listed once more through ONE StoredTree value that had been listed before",
        assumptions: &["containment oracle is a byte-slice comparison independent of src/apath.rs"],
        cases: |t| t.pick(1500, 60_000),
        strategy,
        run,
        enumerate: Some(enumerate),
        exhaustive: |_| false,
        max_shrink_iters: 300,
    }
}
