//! C18 — diff and change reports agree with the real differences.

use std::cmp::Ordering;

use proptest::prelude::*;
use serde::{Deserialize, Serialize};

use crate::engine::{CaseResult, Cx, Prop, Tier};
use crate::format::ref_cmp;
use crate::history::{Edit, apply_edit, edit_strategy};
use crate::ops::{self, ChangeRec, Opts, Sel};
use crate::tree::{self, Kind, Node, Tree, TreeCfg};
use crate::{ensure, fail};

#[derive(Debug, Clone, Serialize, Deserialize)]
pub struct Case {
    pub opts: Opts,
    pub opts2: Opts,
    pub tree: Tree,
    pub edits: Vec<Edit>,
    /// The second backup excludes the i-th entry of the first version (and what is below it):
    /// for the new version those entries are deleted.
    #[serde(default)]
    pub exclude2: Option<u16>,
    /// `BackupOptions::owner` of both backups (off in a sixth of the cases).
    #[serde(default = "yes")]
    pub record_owner: bool,
    /// After the edits the i-th remaining entry (with what is below it) is replaced by
    /// something that is neither file, directory nor symlink (a fifo or a character device):
    /// for the comparison the path is gone.
    #[serde(default)]
    pub special_at: Option<u16>,
}

fn yes() -> bool {
    true
}

fn cfg() -> TreeCfg {
    TreeCfg {
        max_depth: 3,
        max_children: 5,
        max_len: 3000,
        ..TreeCfg::full()
    }
}

fn strategy(_tier: Tier) -> BoxedStrategy<Case> {
    (
        tree::opts_tree_strategy(cfg()),
        tree::opts_strategy(),
        prop::collection::vec(edit_strategy(cfg()), 0..8),
        prop::option::weighted(0.3, any::<u16>()),
        prop::bool::weighted(0.83),
        prop::option::weighted(0.2, any::<u16>()),
    )
        .prop_map(|((opts, tree), opts2, edits, exclude2, record_owner, special_at)| Case { opts, opts2, tree, edits, exclude2, record_owner, special_at })
        .boxed()
}

/// The statement's rule for "changed".
fn changed(a: &Node, b: &Node) -> bool {
    let kind_differs = std::mem::discriminant(&a.kind) != std::mem::discriminant(&b.kind);
    if kind_differs {
        return true;
    }
    if a.meta.uid != b.meta.uid || a.meta.gid != b.meta.gid {
        return true;
    }
    match (&a.kind, &b.kind) {
        (Kind::File { len: la, .. }, Kind::File { len: lb, .. }) => {
            a.meta.mode != b.meta.mode
                || la != lb
                || (a.meta.mtime_s, a.meta.mtime_ns) != (b.meta.mtime_s, b.meta.mtime_ns)
        }
        (Kind::Link { target: ta }, Kind::Link { target: tb }) => ta != tb,
        (Kind::Dir, Kind::Dir) => a.meta.mode != b.meta.mode,
        _ => true,
    }
}

fn model_diff(t0: &Tree, t1: &Tree, include_unchanged: bool) -> Vec<ChangeRec> {
    let mut paths: Vec<&String> = t0.0.keys().chain(t1.0.keys()).collect();
    paths.sort_by(|a, b| ref_cmp(a, b));
    paths.dedup();
    let mut out = vec![];
    for p in paths {
        let sigil = match (t0.0.get(p), t1.0.get(p)) {
            (Some(_), None) => '-',
            (None, Some(_)) => '+',
            (Some(a), Some(b)) => {
                if changed(a, b) { '*' } else { '.' }
            }
            (None, None) => unreachable!(),
        };
        if sigil != '.' || include_unchanged {
            out.push(ChangeRec {
                apath: p.clone(),
                sigil,
            });
        }
    }
    out
}

fn run(case: &Case, cx: &mut Cx) -> CaseResult {
    let src = cx.dir("src");
    let arch = cx.dir("arch");
    let t0 = &case.tree;
    tree::materialise(t0, &src);
    let c = ops::create_archive(&arch);
    ensure!(c.clean(), "C18/create", "{}", c.describe());
    struct OwnerOn;
    impl Drop for OwnerOn {
        fn drop(&mut self) {
            ops::set_record_owner(true);
        }
    }
    let _owner_on = OwnerOn;
    ops::set_record_owner(case.record_owner);
    let b = ops::backup(&arch, &None, &src, case.opts, &[]);
    ensure!(!ops::backup_reported_error(&b), "C18/backup-error", "{}", b.describe());

    // Comparing a version with the very tree it was made from reports no change.
    // (Not asked of a version made with `owner: false`, a library-only setting: it holds no
    // owners, the tree has them, and diff reports that difference for every entry. Those
    // cases check the backup's change reports only, where neither side has owners.)
    if case.record_owner {
        let d = ops::diff(&arch, &Sel::Band(0), &src, false);
        ensure!(d.clean(), "C18/diff-error", "{}", d.describe());
        let d = d.result.unwrap();
        ensure!(d.is_empty(), "C18/diff-of-unmodified-tree-not-empty", "diff against the unmodified source reported {d:?}");
    }

    let mut t1 = t0.clone();
    for e in &case.edits {
        apply_edit(&mut t1, e);
    }
    // a fifo or a device where a stored entry was: the entry is gone
    let special: Option<String> = case.special_at.and_then(|i| {
        let cands: Vec<String> = t1.0.keys().filter(|p| p.as_str() != "/").cloned().collect();
        if cands.is_empty() { None } else { Some(cands[(i as usize * cands.len()) >> 16].clone()) }
    });
    if let Some(p) = &special {
        t1.remove_subtree(p);
    }
    t1.check_invariant();
    tree::rematerialise(t0, &t1, &src);
    if let Some(p) = &special {
        let fp = tree::fs_path(&src, p);
        let c = std::ffi::CString::new(std::os::unix::ffi::OsStrExt::as_bytes(fp.as_os_str())).unwrap();
        let rc = if case.special_at.unwrap_or(0) % 2 == 0 {
            unsafe { libc::mkfifo(c.as_ptr(), 0o644) }
        } else {
            unsafe { libc::mknod(c.as_ptr(), libc::S_IFCHR | 0o600, libc::makedev(1, 3)) }
        };
        assert_eq!(rc, 0, "mkfifo/mknod {fp:?}: {}", std::io::Error::last_os_error());
    }

    for include_unchanged in [false, true] {
        if !case.record_owner {
            break;
        }
        let d = ops::diff(&arch, &Sel::Band(0), &src, include_unchanged);
        ensure!(d.clean(), "C18/diff-error", "{}", d.describe());
        let got = d.result.unwrap();
        let want = model_diff(t0, &t1, include_unchanged);
        if got != want {
            // find first difference for the message and the signature
            let mut i = 0;
            while i < got.len() && i < want.len() && got[i] == want[i] {
                i += 1;
            }
            let g = got.get(i);
            let w = want.get(i);
            let class = match (g, w) {
                (Some(g), Some(w)) if g.apath == w.apath => format!("classified-{}-expected-{}", sig_name(g.sigil), sig_name(w.sigil)),
                (Some(g), Some(w)) if ref_cmp(&g.apath, &w.apath) == Ordering::Less => format!("unexpected-{}", sig_name(g.sigil)),
                (_, Some(w)) => format!("missing-{}", sig_name(w.sigil)),
                (Some(g), None) => format!("unexpected-{}", sig_name(g.sigil)),
                (None, None) => "order".into(),
            };
            fail!(
                format!("C18/diff/{class}"),
                "diff(include_unchanged={include_unchanged}) position {i}: got {g:?}, want {w:?}\n got: {got:?}\nwant: {want:?}"
            );
        }
    }

    // The next backup's change callback.
    let excluded_root: Option<String> = case.exclude2.and_then(|i| {
        let cands: Vec<&String> = t0
            .0
            .keys()
            .filter(|p| p.as_str() != "/" && !p.chars().any(|c| matches!(c, '*' | '?' | '[' | ']' | '{' | '}' | '\\' | '!')))
            .collect();
        if cands.is_empty() { None } else { Some(cands[(i as usize * cands.len()) >> 16].clone()) }
    });
    let excludes: Vec<String> = excluded_root.iter().cloned().collect();
    let is_excluded = |p: &str| excluded_root.as_deref().map_or(false, |x| tree::under(x, p));
    let b = ops::backup(&arch, &None, &src, case.opts2, &excludes);
    ensure!(!ops::backup_reported_error(&b), "C18/backup-error", "second backup: {}", b.describe());
    let changes = b.result.unwrap().changes;
    for (p, n0) in &t0.0 {
        // stored before, excluded now: gone from the new version
        if n0.is_file() && is_excluded(p) && t1.0.contains_key(p) {
            let recs: Vec<&ChangeRec> = changes.iter().filter(|c| c.apath == *p).collect();
            ensure!(
                recs.len() == 1 && recs[0].sigil == '-',
                "C18/backup-callback/newly-excluded-file-not-reported-deleted",
                "file {p} is in the previous version and excluded from this backup ({excludes:?}): backup reported {recs:?}, expected exactly one '-'"
            );
        }
    }
    for (p, n1) in &t1.0 {
        if !n1.is_file() || is_excluded(p) {
            continue;
        }
        let want = match t0.0.get(p) {
            None => '+',
            Some(n0) => {
                let mut n0 = n0.clone();
                if !case.record_owner {
                    // owners are not part of either version
                    n0.meta.uid = n1.meta.uid;
                    n0.meta.gid = n1.meta.gid;
                }
                if changed(&n0, n1) { '*' } else { '.' }
            }
        };
        let recs: Vec<&ChangeRec> = changes.iter().filter(|c| c.apath == *p).collect();
        ensure!(
            recs.len() == 1 && recs[0].sigil == want,
            format!("C18/backup-callback/file-expected-{}", sig_name(want)),
            "file {p}: backup reported {recs:?}, expected exactly one '{want}'"
        );
    }
    for (p, n0) in &t0.0 {
        if n0.is_file() && !t1.0.contains_key(p) {
            let recs: Vec<&ChangeRec> = changes.iter().filter(|c| c.apath == *p).collect();
            ensure!(
                recs.len() == 1 && recs[0].sigil == '-',
                "C18/backup-callback/deleted-file-not-reported",
                "file {p} was removed: backup reported {recs:?}, expected exactly one '-'"
            );
        }
    }

    let md = model_diff(t0, &t1, true);
    let has = |s: char| md.iter().any(|c| c.sigil == s);
    let unchanged_file = md.iter().any(|c| c.sigil == '.' && t1.0.get(&c.apath).map(|n| n.is_file()).unwrap_or(false));
    cx.label_if(has('+'), "added");
    cx.label_if(has('-'), "deleted");
    cx.label_if(has('*'), "changed");
    cx.label_if(unchanged_file, "unchanged-file");
    cx.label_if(case.edits.is_empty(), "no-edits");
    cx.label_if(excluded_root.is_some(), "second-backup-excludes-stored-entries");
    cx.label_if(!case.record_owner, "owners-not-recorded");
    cx.label_if(special.is_some(), "stored-entry-replaced-by-fifo-or-device");
    cx.nontrivial = has('+') && has('-') && has('*') && unchanged_file;
    cx.add_evals(4);
    Ok(())
}

fn sig_name(c: char) -> &'static str {
    match c {
        '+' => "added",
        '-' => "deleted",
        '*' => "changed",
        '.' => "unchanged",
        _ => "other",
    }
}

/// Scale probe (see probes.rs): diff and change reports over a version of 10 015 index hunks.
fn enumerate(_tier: Tier, idx: u32, of: u32, cx: &mut Cx) -> CaseResult {
    if !crate::probes::mine(idx, of) {
        return Ok(());
    }
    let (opts, tree) = crate::probes::many_hunks_tree(10_012);
    let m = crate::probes::plain_meta();
    let edits = vec![
        Edit::Touch { idx: 30_000, mtime_s: 1_600_000_000, mtime_ns: 5 },
        Edit::Touch { idx: 32_690, mtime_s: 1_600_000_001, mtime_ns: 0 },
        Edit::Modify { idx: 65_000, pool: 1, dlen: 2, mtime_s: 1_600_000_002, mtime_ns: 0 },
        Edit::Remove { idx: 50_000 },
        Edit::Remove { idx: 20 },
        Edit::AddFile { dir: 0xFFFF, name: "zz-added".into(), pool: 3, len: 40, meta: m },
        Edit::AddFile { dir: 0x9000, name: "a-added".into(), pool: 4, len: 41, meta: m },
        Edit::Chmod { idx: 10_000, mode: 0o600 },
    ];
    let sub = cx.dir("many-hunks");
    std::fs::create_dir_all(&sub).unwrap();
    let mut cx2 = crate::engine::sub_cx(cx, sub.clone());
    crate::engine::heartbeat();
    run(&Case { opts, opts2: ops::Opts { hunk: 500, ..opts }, tree, edits, exclude2: None, record_owner: true, special_at: None }, &mut cx2).map_err(|mut f| {
        f.signature = format!("{}/probe-many-hunks", f.signature);
        f
    })?;
    crate::engine::force_remove(&sub);
    cx.add_evals(4);
    cx.inner_nontrivial += 1;
    Ok(())
}

pub fn prop() -> Prop<Case> {
    Prop {
        id: "C18",
        level: "exploration",
        rule: "case = (options, tree T0, 0-7 edits over add/modify(content+mtime)/touch(mtime only)/remove/rename/chmod/chown/kind swap/retarget, options2; in 30% of the cases the second backup excludes one entry of the first version and what lies below it, and the files stored there must be reported deleted); oracle = model diff from the statement (added/deleted by path set; changed iff kind, owner or mode differ, or for files size or mtime, or for symlinks the target; directory and symlink mtimes are not changes): diff(stored T0, unmodified source) is empty; diff(stored T0, T1) equals the model diff entry-for-entry in path order with and without include_unchanged; the next backup's change callback reports exactly one added/changed/unchanged for every file of T1 and one deleted for every file of T0 that is gone. Non-trivial = the edit set yields at least one added, one deleted, one changed entry and one unchanged file; distinct by case hash; plus one fixed scale probe (eight edits against a version of 10 015 index hunks); since round 6 a sixth of the cases make both backups with owner = false (change reports only: a version without owners differs from the tree in every owner, which diff says) and in a fifth a remaining entry is replaced by a fifo or a character device, which counts as deleted; since round 8 the edit set can spell a symlink's target differently (a trailing '/', a doubled '/', a '/.' appended): other bytes, a changed link",
        assumptions: &[
            "same-size same-mtime content edits are not generated (outside the documented heuristic)",
            "file<->dir/symlink swaps are exempt on the callback side (the callback is silent for non-file kinds)",
        ],
        cases: |t| t.pick(2000, 100_000),
        strategy,
        run,
        enumerate: Some(enumerate),
        exhaustive: |_| false,
        max_shrink_iters: 400,
    }
}
