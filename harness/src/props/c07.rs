//! C07 — archive files are write-once: backup never alters or removes existing files.

use std::collections::{BTreeMap, BTreeSet};

use proptest::prelude::*;
use serde::{Deserialize, Serialize};
use serde_json::json;

use crate::engine::{CaseResult, Cx, Failure, Prop, Tier};
use crate::format;
use crate::history::{Edit, History, StepKind, World, apply_edit, edit_strategy, history_strategy};
use crate::hooks::{Logged, Pre, V};
use crate::ops::{self, Opts, Sel};
use crate::props::c02::hist_cfg;
use crate::race::{self, Schedule};
use crate::scen;
use crate::tree::{self, CmpOpts, Tree};
use crate::{ensure, fail};

#[derive(Debug, Clone, Serialize, Deserialize)]
pub enum Case {
    Hist(History),
    /// Two backups of differing sources racing on one archive.
    Race {
        initial: Tree,
        /// Optional first backup so that both racers are incremental.
        base: Option<Opts>,
        edits1: Vec<Edit>,
        edits2: Vec<Edit>,
        opts1: Opts,
        opts2: Opts,
        /// Random schedules (in addition to the enumerated <=2-switch ones).
        random: Vec<Vec<(u8, u16)>>,
    },
    /// Two deletes / garbage collections racing on one archive: each may remove only after
    /// it has taken the lock, and only its own lock file.
    GcRace {
        hist: History,
        sel1: Vec<u16>,
        sel2: Vec<u16>,
        random: Vec<Vec<(u8, u16)>>,
    },
}

/// One scheduled run: the schedule and the injected storage errors (usually none).
#[derive(Debug, Clone, PartialEq, Serialize, Deserialize)]
pub struct Inner {
    pub sch: Schedule,
    #[serde(default)]
    pub faults: Vec<crate::hooks::RaceFault>,
}

fn parse_only(cx: &Cx) -> Option<Inner> {
    cx.only_inner.as_ref().and_then(|v| {
        serde_json::from_value::<Inner>(v.clone())
            .ok()
            .or_else(|| serde_json::from_value::<Schedule>(v.clone()).ok().map(|sch| Inner { sch, faults: vec![] }))
    })
}

fn strategy(tier: Tier) -> BoxedStrategy<Case> {
    let race = (
        tree::gen_tree_strategy(scen::small_cfg()),
        prop::option::weighted(0.6, scen::small_opts()),
        prop::collection::vec(edit_strategy(scen::small_cfg()), 1..4),
        prop::collection::vec(edit_strategy(scen::small_cfg()), 1..4),
        scen::small_opts(),
        scen::small_opts(),
        prop::collection::vec(prop::collection::vec((0u8..2, 1u16..12), 2..10), tier.pick(10, 60)),
    )
        .prop_map(|(g, base, edits1, edits2, opts1, opts2, random)| Case::Race {
            initial: g.build(opts1),
            base,
            edits1,
            edits2,
            opts1,
            opts2,
            random,
        });
    let gc_cfg = crate::history::HistCfg { max_ops: 5, deletes: false, ..hist_cfg(tier) };
    let gc_race = (
        history_strategy(gc_cfg),
        prop::collection::vec(any::<u16>(), 0..3),
        prop::collection::vec(any::<u16>(), 0..3),
        prop::collection::vec(prop::collection::vec((0u8..2, 1u16..8), 2..8), tier.pick(10, 60)),
    )
        .prop_map(|(hist, sel1, sel2, random)| Case::GcRace { hist, sel1, sel2, random });
    prop_oneof![
        40 => history_strategy(hist_cfg(tier)).prop_map(Case::Hist),
        1 => race,
        1 => gc_race,
    ]
    .boxed()
}

/// The transport contract itself.
fn check_transport_contract(cx: &Cx) -> CaseResult {
    use conserve::transport::{Transport, WriteMode};
    let dir = cx.dir("contract");
    std::fs::create_dir_all(&dir).unwrap();
    std::fs::write(dir.join("f"), b"original").unwrap();
    let d2 = dir.clone();
    let r = ops::run_op(move |_m| async move {
        let t = Transport::local(&d2);
        Ok(t.write("f", b"replacement", WriteMode::CreateNew).await.is_ok())
    });
    let wrote = r.result.unwrap_or(true);
    let now = std::fs::read(dir.join("f")).unwrap_or_default();
    ensure!(
        !wrote && now == b"original",
        "C07/create-new-overwrites",
        "Transport::write(CreateNew) on an existing non-empty file returned ok={wrote} and the file now holds {:?}",
        String::from_utf8_lossy(&now)
    );
    // the same with payloads of several sizes up to a few MiB
    for len in [4096usize, 65_537, (1 << 20) + 1, 3 << 20] {
        std::fs::write(dir.join("g"), b"original").unwrap();
        let d2 = dir.clone();
        let payload = crate::tree::content_bytes(3, len as u32);
        let r = ops::run_op(move |_m| async move {
            let t = Transport::local(&d2);
            Ok(t.write("g", &payload, WriteMode::CreateNew).await.is_ok())
        });
        let wrote = r.result.unwrap_or(true);
        let now = std::fs::read(dir.join("g")).unwrap_or_default();
        ensure!(
            !wrote && now == b"original",
            "C07/create-new-overwrites/large-payload",
            "Transport::write(CreateNew, {len} bytes) on an existing file returned ok={wrote}; the file now holds {} bytes",
            now.len()
        );
    }
    // Writers that overlap in time: of several CreateNew writes of one new path issued
    // together exactly one succeeds, and the file holds that writer's bytes.
    for round in 0..12u32 {
        let name = format!("race{round}");
        let d2 = dir.clone();
        let n2 = name.clone();
        let r = ops::run_op(move |_m| async move {
            let t = Transport::local(&d2);
            // (every third round with payloads of more than a MiB and of several MiB)
            let base = if round % 3 == 2 { (1usize << 20) + ((round as usize) << 19) } else { 64 };
            let payloads: Vec<Vec<u8>> = (0..4u8).map(|i| vec![b'a' + i; base + 977 * i as usize]).collect();
            let (a, b, c, d) = tokio::join!(
                t.write(&n2, &payloads[0], WriteMode::CreateNew),
                t.write(&n2, &payloads[1], WriteMode::CreateNew),
                t.write(&n2, &payloads[2], WriteMode::CreateNew),
                t.write(&n2, &payloads[3], WriteMode::CreateNew),
            );
            Ok(vec![a.is_ok(), b.is_ok(), c.is_ok(), d.is_ok()])
        });
        let oks = r.result.unwrap_or_default();
        let winners: Vec<usize> = oks.iter().enumerate().filter(|(_, ok)| **ok).map(|(i, _)| i).collect();
        let now = std::fs::read(dir.join(&name)).unwrap_or_default();
        ensure!(
            winners.len() == 1 && now == vec![b'a' + winners[0] as u8; (if round % 3 == 2 { (1usize << 20) + ((round as usize) << 19) } else { 64 }) + 977 * winners[0]],
            "C07/create-new-overlapping-writers",
            "four CreateNew writes of one new path issued together: {} reported success ({oks:?}); the file holds {} bytes starting {:?}",
            winners.len(),
            now.len(),
            now.first().map(|b| *b as char)
        );
    }
    Ok(())
}

fn check_backup_step(
    i: usize,
    before: &BTreeMap<String, Vec<u8>>,
    after: &BTreeMap<String, Vec<u8>>,
    log: &[Logged],
    ids_before: &[u32],
    new_band: Option<u32>,
) -> CaseResult {
    for (p, b) in before {
        match after.get(p) {
            None => fail!("C07/backup-removed-file", "step {i}: {p} existed before the backup and is gone"),
            Some(a) if a != b => {
                if !b.is_empty() || p.ends_with('/') {
                    fail!("C07/backup-altered-file", "step {i}: {p} existed before the backup with {} bytes and was changed", b.len());
                }
            }
            _ => {}
        }
    }
    let mut written: BTreeSet<&str> = BTreeSet::new();
    for l in log {
        match l.key.verb {
            V::RemoveFile | V::RemoveDirAll => {
                if l.injected.is_none() {
                    fail!("C07/backup-removes", "step {i}: backup issued {:?} {}", l.key.verb, l.key.path);
                }
            }
            V::Write => {
                if l.injected.is_some() {
                    continue;
                }
                if let Pre::File(n) = l.pre {
                    if n > 0 {
                        fail!("C07/write-to-existing-file", "step {i}: write to {} which held {n} bytes", l.key.path);
                    }
                }
                if l.ok && !written.insert(&l.key.path) {
                    fail!("C07/path-written-twice", "step {i}: {} written twice in one backup", l.key.path);
                }
            }
            _ => {}
        }
    }
    if let Some(nb) = new_band {
        if let Some(m) = ids_before.iter().max() {
            ensure!(nb > *m, "C07/new-id-not-above-existing", "step {i}: new version b{nb:04} but b{m:04} already existed");
        }
    }
    Ok(())
}

fn run_hist(h: &History, cx: &mut Cx) -> CaseResult {
    check_transport_contract(cx)?;
    let mut w = World::for_history(&cx.scratch, h);
    let mut evals = 0u64;
    let mut incremental_or_resumed = false;
    for (i, op) in h.ops.iter().enumerate() {
        let before = format::raw_tree(&w.arch);
        let pre = format::scan(&w.arch);
        let ids_before: Vec<u32> = pre.bands.keys().copied().collect();
        let step = w.apply(op);
        let after = format::raw_tree(&w.arch);
        match &step {
            StepKind::Mutated => continue,
            StepKind::Backup { log, new_band, report, .. } => {
                ensure!(report.panic.is_none(), "C07/backup-panic", "step {i}: {}", report.describe());
                check_backup_step(i, &before, &after, log, &ids_before, *new_band)?;
                if !ids_before.is_empty() {
                    incremental_or_resumed = true;
                }
                evals += 1;
            }
            StepKind::Delete { requested, report, .. } => {
                ensure!(report.panic.is_none(), "C07/delete-panic", "step {i}: {}", report.describe());
                let kept: Vec<u32> = ids_before.iter().copied().filter(|b| !requested.contains(b)).collect();
                let referenced = pre.referenced_hashes(kept.iter().copied());
                for (p, b) in &before {
                    match after.get(p) {
                        Some(a) if a == b => {}
                        Some(_) => fail!("C07/delete-altered-file", "step {i}: {p} was modified by delete/gc"),
                        None => {
                            let in_requested = requested.iter().any(|r| p.starts_with(&format!("{}/", format::band_dirname(*r))));
                            let unref_block = p.starts_with("d/")
                                && !p.ends_with('/')
                                && !referenced.contains(p.rsplit('/').next().unwrap());
                            let block_subdir = p.starts_with("d/") && p.ends_with('/');
                            ensure!(
                                in_requested || unref_block || p == "GC_LOCK" || block_subdir,
                                "C07/delete-removed-other-file",
                                "step {i}: delete of {requested:?} removed {p}, which is neither in a requested version nor an unreferenced block"
                            );
                        }
                    }
                }
                for p in after.keys() {
                    ensure!(before.contains_key(p) || p == "GC_LOCK", "C07/delete-created-file", "step {i}: delete created {p}");
                }
                evals += 1;
            }
        }
    }
    // Epilogue for a third of the histories: a block of the newest version is cut to 1-3
    // bytes (damage), then the unchanged source is backed up again. A damaged file is still a
    // file that exists: it may be reported, never written over.
    if h.ops.len() % 3 == 0 {
        let o = Opts { hunk: 4, block: 256, cap: 100 };
        let s1 = w.apply(&crate::history::Op::Backup(o));
        if let StepKind::Backup { report, new_band: Some(nb), .. } = &s1 {
            if report.clean() {
                let ra = format::scan(&w.arch);
                let used: Vec<String> = ra.referenced_hashes(std::iter::once(*nb)).into_iter().collect();
                let cands: Vec<&format::RawBlock> = used.iter().filter_map(|hsh| ra.blocks.get(hsh)).filter(|b| b.file_len > 3).collect();
                if !cands.is_empty() {
                    let victim = cands[(h.ops.len() * 7) % cands.len()];
                    let keep = 1 + (h.ops.len() / 3) % 3;
                    let path = w.arch.join(&victim.relpath);
                    let bytes = std::fs::read(&path).unwrap();
                    std::fs::write(&path, &bytes[..keep]).unwrap();
                    let before = format::raw_tree(&w.arch);
                    let ids_before: Vec<u32> = format::scan(&w.arch).bands.keys().copied().collect();
                    let s2 = w.apply(&crate::history::Op::Backup(o));
                    let after = format::raw_tree(&w.arch);
                    if let StepKind::Backup { log, new_band, report, .. } = &s2 {
                        ensure!(report.panic.is_none(), "C07/backup-panic", "after a block was cut to {keep} bytes: {}", report.describe());
                        check_backup_step(h.ops.len() + 1, &before, &after, log, &ids_before, *new_band).map_err(|mut f| {
                            f.signature = format!("{}/after-block-cut-short", f.signature);
                            f.message = format!("{} was cut to {keep} bytes before this backup: {}", victim.relpath, f.message);
                            f
                        })?;
                        evals += 1;
                        cx.label("epilogue:block-cut-short");
                    }
                }
            }
        }
    }
    // Another third end with a collector's lock file lying in the archive, last touched a few
    // seconds, hours, days or more than a year ago (a collector that was killed, or one that is
    // still at work): the backup may refuse, it may not remove or change the file.
    if h.ops.len() % 3 == 1 {
        let age_s: i64 = [5, 7_200, 3 * 86_400, 400 * 86_400][(h.ops.len() / 3) % 4];
        let lock = w.arch.join("GC_LOCK");
        if !lock.exists() {
            std::fs::write(&lock, b"{}\n").unwrap();
            let now = std::time::SystemTime::now().duration_since(std::time::UNIX_EPOCH).unwrap().as_secs() as i64;
            tree::set_mtime(&lock, now - age_s, 0);
            let before = format::raw_tree(&w.arch);
            let ids_before: Vec<u32> = format::scan(&w.arch).bands.keys().copied().collect();
            let s = w.apply(&crate::history::Op::Backup(Opts { hunk: 4, block: 256, cap: 100 }));
            let after = format::raw_tree(&w.arch);
            if let StepKind::Backup { log, new_band, report, .. } = &s {
                ensure!(report.panic.is_none(), "C07/backup-panic", "with a lock file {age_s} s old: {}", report.describe());
                check_backup_step(h.ops.len() + 1, &before, &after, log, &ids_before, *new_band).map_err(|mut f| {
                    f.signature = format!("{}/lock-file-present", f.signature);
                    f.message = format!("a GC_LOCK last touched {age_s} s ago was in the archive: {}", f.message);
                    f
                })?;
                evals += 1;
                cx.label("epilogue:lock-file-present");
            }
            let _ = std::fs::remove_file(&lock);
        }
    }
    cx.add_evals(evals);
    cx.label("history");
    cx.nontrivial = incremental_or_resumed;
    Ok(())
}

#[allow(clippy::too_many_arguments)]
fn run_race(
    initial: &Tree,
    base: Option<Opts>,
    edits1: &[Edit],
    edits2: &[Edit],
    opts1: Opts,
    opts2: Opts,
    random: &[Vec<(u8, u16)>],
    cx: &mut Cx,
) -> CaseResult {
    let w = World::new(&cx.scratch, initial);
    if let Some(o) = base {
        let b = ops::backup(&w.arch, &None, &w.src, o, &[]);
        ensure!(!ops::backup_reported_error(&b), "C07/base-backup", "{}", b.describe());
    }
    // two sources that differ
    let mut t1 = initial.clone();
    for e in edits1 {
        apply_edit(&mut t1, e);
    }
    let mut t2 = initial.clone();
    for e in edits2 {
        apply_edit(&mut t2, e);
    }
    let src1 = cx.dir("src1");
    let src2 = cx.dir("src2");
    tree::materialise(&t1, &src1);
    tree::materialise(&t2, &src2);
    let pristine = cx.dir("pristine");
    scen::copy_dir(&w.arch, &pristine);
    let before = format::raw_tree(&pristine);
    std::fs::create_dir_all(cx.dir("r")).unwrap();

    // trace lengths from solo runs
    let mut lens = [0usize; 2];
    let mut block_writes = [0usize; 2];
    // number of operations after which an actor has just written its BANDHEAD (solo run)
    let mut head_done = [0usize; 2];
    for (k, (src, opts)) in [(&src1, opts1), (&src2, opts2)].iter().enumerate() {
        let ctl = crate::hooks::Ctl::new(&w.arch, crate::hooks::Plan::None);
        let hook: ops::Hook = Some(ctl.clone() as std::sync::Arc<dyn conserve::transport::verif::Interceptor>);
        let _ = ops::backup(&w.arch, &hook, src, *opts, &[]);
        lens[k] = ctl.log().len();
        block_writes[k] = ctl.log().iter().filter(|l| l.key.verb == V::Write && l.key.path.starts_with("d/")).count();
        head_done[k] = ctl.log().iter().position(|l| l.key.verb == V::Write && l.key.path.ends_with("/BANDHEAD")).map_or(0, |i| i + 1);
        crate::engine::force_remove(&w.arch);
        scen::copy_dir(&pristine, &w.arch);
    }
    let per = cx.tier.pick(10usize, 40usize);
    let points: [Vec<u16>; 2] = [
        scen::thin(&(1..=lens[0] as u16).collect::<Vec<_>>(), per),
        scen::thin(&(1..=lens[1] as u16).collect::<Vec<_>>(), per),
    ];
    let mut schedules = race::enumerate_two(&points, 2);
    schedules.extend(random.iter().map(|r| Schedule(r.clone())));
    let mut runs: Vec<Inner> = schedules.into_iter().map(|sch| Inner { sch, faults: vec![] }).collect();
    // One block write of one racer fails (the racer pauses after p operations, the other
    // runs through, the racer carries on): a failed write must not lead to anything being
    // removed or overwritten, whoever wrote the file that is there.
    {
        use crate::hooks::{Kind as EK, RaceFault};
        for a in 0..2usize {
            let nths = scen::thin(&(0..block_writes[a] as u16).collect::<Vec<_>>(), cx.tier.pick(3, 8));
            let pauses = scen::thin(&points[a], cx.tier.pick(6, 12));
            for nth in &nths {
                for kind in [EK::Other, EK::PermissionDenied, EK::NotFound] {
                    for p in &pauses {
                        runs.push(Inner {
                            sch: Schedule(vec![(a as u8, *p), (1 - a as u8, u16::MAX)]),
                            faults: vec![RaceFault { actor: a, verb: Some(V::Write), prefix: "d/".into(), nth: *nth, kind, freeze_torn: false }],
                        });
                    }
                }
            }
        }
    }
    // The same for the racer's writes into its version (head, first hunks, tail): it pauses
    // after p operations, the other one runs through (and may have taken the id), the racer
    // carries on and that write fails with something else than "already exists".
    {
        use crate::hooks::{Kind as EK, RaceFault};
        for a in 0..2usize {
            let pauses = scen::thin(&points[a], cx.tier.pick(6, 12));
            for nth in [0u16, 1, 2] {
                for kind in [EK::Other, EK::PermissionDenied, EK::NotFound, EK::Connect] {
                    for p in &pauses {
                        runs.push(Inner {
                            sch: Schedule(vec![(a as u8, *p), (1 - a as u8, u16::MAX)]),
                            faults: vec![RaceFault { actor: a, verb: Some(V::Write), prefix: "b".into(), nth, kind, freeze_torn: false }],
                        });
                    }
                }
            }
        }
    }
    // ... and when the winner is caught between its head and its first hunk: the racer pauses
    // after p operations, the other one runs until it has just written its BANDHEAD, the racer
    // carries on (its own head write fails) to its end, then the other one finishes.
    {
        use crate::hooks::{Kind as EK, RaceFault};
        for a in 0..2usize {
            let w = 1 - a;
            if head_done[w] == 0 {
                continue;
            }
            let pauses = scen::thin(&points[a], cx.tier.pick(6, 12));
            for kind in [EK::Other, EK::PermissionDenied, EK::NotFound, EK::Connect] {
                for p in &pauses {
                    runs.push(Inner {
                        sch: Schedule(vec![(a as u8, *p), (w as u8, head_done[w] as u16), (a as u8, u16::MAX), (w as u8, u16::MAX)]),
                        faults: vec![RaceFault { actor: a, verb: Some(V::Write), prefix: "b".into(), nth: 0, kind, freeze_torn: false }],
                    });
                }
            }
        }
    }
    // One racer is killed while writing a block (an empty file is left at that path) after
    // the other one, paused after p operations, has already listed the blocks; the survivor
    // then carries on and must not take the leftover for its own stored block.
    {
        use crate::hooks::{Kind as EK, RaceFault};
        for a in 0..2usize {
            let nths = scen::thin(&(0..block_writes[a] as u16).collect::<Vec<_>>(), cx.tier.pick(3, 8));
            let pauses = scen::thin(&points[1 - a], cx.tier.pick(8, 16));
            for nth in &nths {
                for p in &pauses {
                    runs.push(Inner {
                        sch: Schedule(vec![(1 - a as u8, *p), (a as u8, u16::MAX)]),
                        faults: vec![RaceFault { actor: a, verb: Some(V::Write), prefix: "d/".into(), nth: *nth, kind: EK::Other, freeze_torn: true }],
                    });
                }
            }
        }
    }
    let only = parse_only(cx);
    let mut evals = 0u64;
    let mut nontrivial = 0u64;
    let mut n = 0u32;
    for inner in runs {
        if let Some(o) = &only {
            if *o != inner {
                continue;
            }
        }
        let sch = &inner.sch;
        crate::engine::heartbeat();
        crate::engine::force_remove(&w.arch);
        scen::copy_dir(&pristine, &w.arch);
        let (a1, a2) = (w.arch.clone(), w.arch.clone());
        let (s1, s2) = (src1.clone(), src2.clone());
        let out = race::run_with_faults(
            &w.arch,
            vec![
                Box::new(move |hook| ops::backup(&a1, &hook, &s1, opts1, &[]).map(|o| o.stats)),
                Box::new(move |hook| ops::backup(&a2, &hook, &s2, opts2, &[]).map(|o| o.stats)),
            ],
            sch,
            inner.faults.clone(),
        );
        evals += 1;
        if std::env::var("VERIF_TIMING").is_ok() && inner.faults.iter().any(|f| f.freeze_torn) {
            eprintln!("kill-run {:?} faults={:?}", inner.sch, inner.faults);
            for (a, l) in &out.trace {
                if l.key.path.starts_with("d/") || l.key.path.is_empty() || l.key.path == "d" {
                    eprintln!("   actor {a} {:?} {} pre={:?} inj={:?} ok={}", l.key.verb, l.key.path.chars().take(20).collect::<String>(), l.pre, l.injected, l.ok);
                }
            }
            for (i, r) in out.results.iter().enumerate() {
                eprintln!("   result {i}: {}", r.describe().chars().take(200).collect::<String>());
            }
        }
        // both listed the bands before either created one?
        let first_create: Vec<Option<usize>> = (0..2)
            .map(|a| out.trace.iter().position(|(x, l)| *x == a && l.key.verb == V::CreateDir && l.key.path.starts_with('b')))
            .collect();
        let first_list: Vec<Option<usize>> = (0..2)
            .map(|a| out.trace.iter().position(|(x, l)| *x == a && l.key.verb == V::ListDir && l.key.path.is_empty()))
            .collect();
        let contended = match (first_list[0], first_list[1], first_create[0], first_create[1]) {
            (Some(l0), Some(l1), c0, c1) => {
                let first_c = c0.into_iter().chain(c1).min().unwrap_or(usize::MAX);
                l0 < first_c && l1 < first_c
            }
            _ => false,
        };
        if contended {
            nontrivial += 1;
        }
        let res: CaseResult = (|| {
            for (i, r) in out.results.iter().enumerate() {
                if let Some(p) = &r.panic {
                    fail!(format!("C07/race/backup-panic@{}", ops::panic_site(p)), "actor {i}: {p}");
                }
            }
            let after = format::raw_tree(&w.arch);
            for (p, b) in &before {
                match after.get(p) {
                    Some(a) if a == b => {}
                    _ => fail!("C07/race/existing-file-changed", "{p} existed before the two backups and was altered or removed"),
                }
            }
            let mut band_writers: BTreeMap<String, BTreeSet<usize>> = BTreeMap::new();
            for (a, l) in &out.trace {
                if l.key.verb == V::Write && l.ok {
                    if let Pre::File(nb) = l.pre {
                        if nb > 0 {
                            fail!("C07/race/write-to-existing-file", "actor {a} wrote {} which already held {nb} bytes", l.key.path);
                        }
                    }
                    if l.key.path.starts_with('b') {
                        let band = l.key.path.split('/').next().unwrap().to_string();
                        band_writers.entry(band).or_default().insert(*a);
                    }
                }
                if matches!(l.key.verb, V::RemoveFile | V::RemoveDirAll) {
                    fail!("C07/race/backup-removes", "actor {a} issued {:?} {}", l.key.verb, l.key.path);
                }
            }
            for (band, writers) in &band_writers {
                ensure!(
                    writers.len() == 1,
                    "C07/race/two-writers-in-one-version",
                    "both backups wrote files inside {band}: the loser did not fail"
                );
            }
            // complete bands made without a reported error restore to their actor's source
            let post = format::scan(&w.arch);
            for (i, r) in out.results.iter().enumerate() {
                // (an ERROR line in the log is not a report: see ops::backup_reported_error)
                let reported = r.panic.is_some() || r.result.is_err() || !r.monitor_errors.is_empty() || r.result.as_ref().map(|s| s.errors > 0).unwrap_or(true);
                if reported {
                    continue;
                }
                let band = band_writers.iter().find(|(_, ws)| ws.contains(&i)).map(|(b, _)| b.clone());
                let Some(band) = band else {
                    fail!("C07/race/success-without-version", "actor {i} reported success but wrote no version");
                };
                let id: u32 = band[1..].parse().unwrap();
                ensure!(
                    post.bands.get(&id).map(|b| b.tail.present_nonempty()).unwrap_or(false),
                    "C07/race/success-without-tail",
                    "actor {i} reported success but {band} is not closed"
                );
                n += 1;
                let dest = cx.dir("r").join(format!("d{n}"));
                let rr = ops::restore(&w.arch, &None, &dest, &Sel::Band(id), None, &[], false);
                let want = if i == 0 { &t1 } else { &t2 };
                let diff = tree::first_diff(&tree::expected(want), &tree::snapshot(&dest), CmpOpts::restore());
                crate::engine::force_remove(&dest);
                ensure!(
                    rr.clean() && diff.is_none(),
                    "C07/race/winner-version-wrong",
                    "actor {i} reported success for {band} but it does not restore to its source: {} {:?}",
                    rr.describe(),
                    diff
                );
            }
            Ok(())
        })();
        if let Err(f) = res {
            let f = if inner.faults.is_empty() { f } else { Failure::new(format!("{}/with-storage-error", f.signature), f.message.clone()) };
            cx.inner_failure(f.with_inner(json!(inner)))?;
        }
    }
    cx.add_evals(evals);
    cx.inner_nontrivial += nontrivial;
    cx.label("race");
    Ok(())
}

fn run_gc_race(hist: &History, sel1: &[u16], sel2: &[u16], random: &[Vec<(u8, u16)>], cx: &mut Cx) -> CaseResult {
    let mut w = World::for_history(&cx.scratch, hist);
    for op in &hist.ops {
        let _ = w.apply(op);
    }
    let ids: Vec<u32> = w.bands.keys().copied().collect();
    let pick_ids = |sel: &[u16]| -> Vec<u32> {
        let mut v: Vec<u32> = sel.iter().filter(|_| !ids.is_empty()).map(|i| ids[(*i as usize * ids.len()) >> 16]).collect();
        v.sort();
        v.dedup();
        v
    };
    let req = [pick_ids(sel1), pick_ids(sel2)];
    let pristine = cx.dir("pristine");
    scen::copy_dir(&w.arch, &pristine);
    let before = format::raw_tree(&pristine);
    let pre = format::scan(&pristine);
    std::fs::create_dir_all(cx.dir("r")).unwrap();
    // switch points from solo runs
    let mut points: [Vec<u16>; 2] = [vec![], vec![]];
    let mut solo_ok = [false; 2];
    for k in 0..2 {
        let ctl = crate::hooks::Ctl::new(&w.arch, crate::hooks::Plan::None);
        let hook: ops::Hook = Some(ctl.clone() as std::sync::Arc<dyn conserve::transport::verif::Interceptor>);
        let r = ops::delete_bands(&w.arch, &hook, &req[k], false, false);
        solo_ok[k] = r.result.is_ok();
        let (all, _crit) = race::key_points(&ctl.log());
        points[k] = scen::thin(&all, cx.tier.pick(10, 30));
        crate::engine::force_remove(&w.arch);
        scen::copy_dir(&pristine, &w.arch);
    }
    let mut schedules = race::enumerate_two(&points, 2);
    schedules.extend(random.iter().map(|r| Schedule(r.clone())));
    let only = parse_only(cx);
    let mut evals = 0u64;
    let mut nontrivial = 0u64;
    let mut n = 0u32;
    for sch in schedules {
        let inner = Inner { sch: sch.clone(), faults: vec![] };
        if let Some(o) = &only {
            if *o != inner {
                continue;
            }
        }
        crate::engine::heartbeat();
        crate::engine::force_remove(&w.arch);
        scen::copy_dir(&pristine, &w.arch);
        let (a1, a2) = (w.arch.clone(), w.arch.clone());
        let (r1, r2) = (req[0].clone(), req[1].clone());
        let out = race::run(
            &w.arch,
            vec![
                Box::new(move |hook| ops::delete_bands(&a1, &hook, &r1, false, false).map(|_| ())),
                Box::new(move |hook| ops::delete_bands(&a2, &hook, &r2, false, false).map(|_| ())),
            ],
            &sch,
        );
        evals += 1;
        let res: CaseResult = (|| {
            for (i, r) in out.results.iter().enumerate() {
                if let Some(p) = &r.panic {
                    fail!(format!("C07/gc-race/delete-panic@{}", ops::panic_site(p)), "actor {i}: {p}");
                }
            }
            // who holds the lock when
            let mut holder: Option<usize> = None;
            let mut both_wanted = [false; 2];
            for (a, l) in &out.trace {
                let is_lock = l.key.path == "GC_LOCK";
                if is_lock && l.key.verb == V::Metadata {
                    both_wanted[*a] = true;
                }
                match l.key.verb {
                    V::Write if is_lock && l.ok => {
                        if let Some(h) = holder {
                            fail!("C07/gc-race/two-lock-holders", "actor {a} wrote GC_LOCK while actor {h} held it");
                        }
                        holder = Some(*a);
                    }
                    V::Write | V::CreateDir if !is_lock => {
                        fail!("C07/gc-race/delete-writes", "actor {a} issued {:?} {}", l.key.verb, l.key.path)
                    }
                    V::RemoveFile if is_lock => {
                        ensure!(
                            holder == Some(*a),
                            "C07/gc-race/removed-foreign-lock",
                            "actor {a} removed GC_LOCK, which it had not taken (holder: {holder:?})"
                        );
                        if l.ok {
                            holder = None;
                        }
                    }
                    V::RemoveFile | V::RemoveDirAll => {
                        ensure!(
                            holder == Some(*a),
                            "C07/gc-race/removal-without-lock",
                            "actor {a} issued {:?} {} without holding the lock (holder: {holder:?})",
                            l.key.verb,
                            l.key.path
                        );
                    }
                    _ => {}
                }
            }
            if both_wanted[0] && both_wanted[1] {
                nontrivial += 1;
            }
            // what is gone was requested by an actor that succeeded -- or by one that failed
            // part of the way (it had removed some of the versions it was asked to remove, say
            // before it found another of them already gone: those directories it was entitled to
            // remove) -- or was unreferenced
            let mut done: BTreeSet<u32> = (0..2).filter(|i| out.results[*i].result.is_ok()).flat_map(|i| req[i].iter().copied()).collect();
            for (a, l) in &out.trace {
                if l.key.verb == V::RemoveDirAll && l.ok && l.injected.is_none() {
                    if let Some(id) = req[*a].iter().find(|id| l.key.path.trim_end_matches('/') == format::band_dirname(**id)) {
                        done.insert(*id);
                    }
                }
            }
            let kept: Vec<u32> = pre.bands.keys().copied().filter(|b| !done.contains(b)).collect();
            let referenced = pre.referenced_hashes(kept.iter().copied());
            let after = format::raw_tree(&w.arch);
            for (p, bytes) in &before {
                match after.get(p) {
                    Some(a) if a == bytes => {}
                    Some(_) => fail!("C07/gc-race/file-modified", "{p} was modified"),
                    None => {
                        let top = p.split('/').next().unwrap_or("");
                        let in_done_band = top.starts_with('b') && top[1..].parse::<u32>().map_or(false, |b| done.contains(&b));
                        let unref_block = p.starts_with("d/") && !p.ends_with('/') && !referenced.contains(p.rsplit('/').next().unwrap());
                        ensure!(
                            in_done_band || unref_block || p == "GC_LOCK" || (p.starts_with("d/") && p.ends_with('/')),
                            "C07/gc-race/removed-other-file",
                            "{p} is gone after deletes of {:?} and {:?} (succeeded: {done:?}); it belongs to a kept version",
                            req[0],
                            req[1]
                        );
                    }
                }
            }
            ensure!(!after.contains_key("GC_LOCK"), "C07/gc-race/lock-left-behind", "GC_LOCK still exists after both deletes returned");
            for (id, t) in w.complete_bands() {
                if kept.contains(&id) {
                    crate::props::c02::check_restore(&w, cx, &Sel::Band(id), t, 0, "C07/gc-race/kept-version", &mut n)?;
                }
            }
            Ok(())
        })();
        if let Err(f) = res {
            cx.inner_failure(f.with_inner(json!(inner)))?;
        }
    }
    cx.add_evals(evals);
    cx.inner_nontrivial += nontrivial;
    cx.label("gc-race");
    cx.label_if(solo_ok[0] && solo_ok[1], "gc-race/both-deletes-possible");
    Ok(())
}

fn run(case: &Case, cx: &mut Cx) -> CaseResult {
    match case {
        Case::Hist(h) => run_hist(h, cx),
        Case::Race { initial, base, edits1, edits2, opts1, opts2, random } => {
            run_race(initial, *base, edits1, edits2, *opts1, *opts2, random, cx)
        }
        Case::GcRace { hist, sel1, sel2, random } => run_gc_race(hist, sel1, sel2, random, cx),
    }
}

/// Scale probes (see probes.rs): two backups racing over a shared file of several MiB (one
/// block), and a gc on a version with 10 015 index hunks.
fn enumerate(_tier: Tier, idx: u32, of: u32, cx: &mut Cx) -> CaseResult {
    if !crate::probes::mine(idx, of) {
        return Ok(());
    }
    // --- big shared block race
    let sub = cx.dir("big-race");
    std::fs::create_dir_all(&sub).unwrap();
    let mut cx2 = crate::engine::sub_cx(cx, sub.clone());
    cx2.tier = Tier::Quick;
    let m = crate::probes::plain_meta();
    let mut initial = Tree::empty_root(crate::tree::Meta { mode: 0o755, ..m });
    initial.0.insert("/shared-big".into(), crate::tree::Node { kind: crate::tree::Kind::File { pool: 3, len: 3 << 20 }, meta: m });
    initial.0.insert("/small".into(), crate::tree::Node { kind: crate::tree::Kind::File { pool: 4, len: 50 }, meta: m });
    let add = |name: &str, pool: u8| Edit::AddFile { dir: 0, name: name.into(), pool, len: 90, meta: m };
    crate::engine::heartbeat();
    run_race(
        &initial,
        None,
        &[add("only-in-one", 5)],
        &[add("only-in-two", 6)],
        Opts::defaults(),
        Opts::defaults(),
        &[vec![(0, 8), (1, 200)], vec![(1, 8), (0, 200)], vec![(0, 9), (1, 9), (0, 200)]],
        &mut cx2,
    )
    .map_err(|mut f| {
        f.signature = format!("{}/probe-big-shared-block", f.signature);
        f
    })?;
    crate::engine::force_remove(&sub);
    cx.add_evals(cx2.evals);
    cx.inner_nontrivial += cx2.inner_nontrivial.max(1);

    // --- gc on a version with more than 10 000 hunks: nothing referenced may be removed
    crate::engine::heartbeat();
    let (opts, tree) = crate::probes::many_hunks_tree(10_012);
    let sub = cx.dir("many-hunks");
    std::fs::create_dir_all(&sub).unwrap();
    let w = World::new(&sub, &tree);
    let b = ops::backup(&w.arch, &None, &w.src, opts, &[]);
    ensure!(!ops::backup_reported_error(&b), "C07/probe-setup", "{}", b.describe());
    let before = format::raw_tree(&w.arch);
    let pre = format::scan(&w.arch);
    let referenced = pre.referenced_hashes([0u32].into_iter());
    crate::engine::heartbeat();
    let r = ops::delete_bands(&w.arch, &None, &[], false, false);
    ensure!(r.panic.is_none(), "C07/delete-panic", "{}", r.describe());
    let after = format::raw_tree(&w.arch);
    for (p, bytes) in &before {
        match after.get(p) {
            Some(a) if a == bytes => {}
            Some(_) => fail!("C07/delete-altered-file/probe-many-hunks", "{p} was modified by gc"),
            None => {
                let unref_block = p.starts_with("d/") && !p.ends_with('/') && !referenced.contains(p.rsplit('/').next().unwrap());
                ensure!(
                    unref_block || p == "GC_LOCK" || (p.starts_with("d/") && p.ends_with('/')),
                    "C07/delete-removed-other-file/probe-many-hunks",
                    "gc on a single 10 015-hunk version removed {p}, which that version references"
                );
            }
        }
    }
    crate::engine::force_remove(&sub);
    cx.add_evals(1);
    cx.inner_nontrivial += 1;
    Ok(())
}

pub fn prop() -> Prop<Case> {
    Prop {
        id: "C07",
        level: "exploration",
        rule: "two generated case kinds. Hist: history as C02 with every storage operation logged together with the pre-state of its path and the directory snapshotted (bytes) before/after each step: per backup step (complete, interrupted, resumed) every pre-existing file is still there byte-identical (a zero-length leftover may be completed), the log has no write to a path that held >0 bytes, no path written twice, no remove, and the new id exceeds every id that existed; per delete/gc step removals are confined to requested version directories, blocks unreferenced by the kept versions (independent scan) and GC_LOCK, and nothing is modified or created; a third of the histories end with an epilogue (complete backup, one of its blocks cut to 1-3 bytes, the unchanged source backed up again: the damaged file must not be written over); plus the transport contract (CreateNew on an existing file fails and leaves it; of four CreateNew writes of one new path issued together exactly one succeeds and its bytes are what the file holds). Race: two backups of differing sources on one archive under the deterministic scheduler: all schedules with <=2 context switches over thinned switch points (quick 10 / thorough 40 per actor) + generated random schedules; every version's files are written by one actor only, nobody writes to an existing non-empty path, pre-existing files unchanged, and every backup that reports success has a closed version that restores to its own source. Non-trivial: history step over an archive that already has a band; race schedule in which both actors list the versions before either creates one. Race schedules distinct by construction, histories by case hash. The transport contract is probed with payloads up to 3 MiB; fixed scale probes per run: a race of two backups sharing a 3 MiB single-block file, and a gc on a 10 015-hunk version; since round 7 a third of the histories end with a backup while a collector's lock file last touched 5 s, 2 h, 3 days or 400 days ago lies in the archive (it may refuse; the file must stay as it is), and race runs also fail the racer's first writes into its version (head, first hunks) after the other racer ran; since round 9 the overlapping CreateNew writers also carry payloads of 2-7 MiB, and the faults on a racer's version writes include a connection-level error, and four-segment race runs in which the other backup has just written its BANDHEAD when the racer's own head write fails",
        assumptions: &[
            "interleavings are at transport-operation granularity on sequentially consistent local storage",
        ],
        cases: |t| t.pick(400, 5_000),
        strategy,
        run,
        enumerate: Some(enumerate),
        exhaustive: |_| false,
        max_shrink_iters: 200,
    }
}
