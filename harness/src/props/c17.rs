//! C17 — the archive is a pure function of the source and the operation history.

use std::collections::BTreeMap;
use std::sync::Arc;

use proptest::prelude::*;
use serde::{Deserialize, Serialize};

use crate::engine::{CaseResult, Cx, Prop, Tier};
use crate::format;
use crate::history::{History, Op, StepKind, World, history_strategy};
use crate::hooks::{Ctl, Plan};
use crate::ops::{self, Hook, Rt};
use crate::props::c02::hist_cfg;
use crate::{ensure, fail};

#[derive(Debug, Clone, Serialize, Deserialize)]
pub struct Case {
    pub hist: History,
    /// Worker threads of the second replay's runtime.
    pub workers: u8,
    /// Perturbation bytes for the second replay.
    pub perturb: Vec<u8>,
}

fn strategy(tier: Tier) -> BoxedStrategy<Case> {
    let mut cfg = hist_cfg(tier);
    cfg.max_ops = tier.pick(10, 20);
    (
        history_strategy(cfg),
        prop::sample::select(vec![1u8, 2, 4]),
        prop::collection::vec(any::<u8>(), 0..24),
    )
        .prop_map(|(hist, workers, perturb)| Case { hist, workers, perturb })
        .boxed()
}

fn normalise(path: &str, bytes: &[u8]) -> Vec<u8> {
    let key = if path.ends_with("/BANDHEAD") {
        Some("start_time")
    } else if path.ends_with("/BANDTAIL") {
        Some("end_time")
    } else {
        None
    };
    if let Some(k) = key {
        if let Ok(serde_json::Value::Object(mut m)) = serde_json::from_slice::<serde_json::Value>(bytes) {
            m.remove(k);
            return serde_json::to_vec(&serde_json::Value::Object(m)).unwrap();
        }
    }
    bytes.to_vec()
}

fn compare(a: &BTreeMap<String, Vec<u8>>, b: &BTreeMap<String, Vec<u8>>, step: usize) -> CaseResult {
    for (p, ba) in a {
        match b.get(p) {
            None => fail!("C17/file-set-differs", "after step {step}: {p} exists in replay A but not in replay B"),
            Some(bb) => {
                if normalise(p, ba) != normalise(p, bb) {
                    let class = if p.starts_with("d/") {
                        "block"
                    } else if p.contains("/i/") {
                        "hunk"
                    } else {
                        "meta"
                    };
                    fail!(
                        format!("C17/content-differs/{class}"),
                        "after step {step}: {p} differs between the two replays ({} vs {} bytes)",
                        ba.len(),
                        bb.len()
                    );
                }
            }
        }
    }
    for p in b.keys() {
        ensure!(a.contains_key(p), "C17/file-set-differs", "after step {step}: {p} exists in replay B but not in replay A");
    }
    Ok(())
}

fn run(case: &Case, cx: &mut Cx) -> CaseResult {
    let mut w = World::new(&cx.scratch, &case.hist.initial);
    let arch_b = cx.dir("arch_b");
    let c = ops::create_archive(&arch_b);
    ensure!(c.clean(), "C17/create", "{}", c.describe());
    let rt_b = Rt::Multi(case.workers as usize);
    let mut backups = 0;
    let mut evals = 0u64;
    for (i, op) in case.hist.ops.iter().enumerate() {
        let ids_before: Vec<u32> = w.bands.keys().copied().collect();
        let step = w.apply(op);
        // replay the same operation on B with another runtime flavour and perturbed timing
        match (&step, op) {
            (StepKind::Mutated, _) => continue,
            (StepKind::Backup { opts, .. }, op) => {
                let plan = match op {
                    Op::BackupInterrupted { k, torn, .. } => Plan::FreezeAtMutating { k: *k as usize, torn: *torn },
                    _ => Plan::None,
                };
                let ctl = Ctl::new_unserialized(&arch_b, plan, case.perturb.clone());
                let hook: Hook = Some(ctl as Arc<dyn conserve::transport::verif::Interceptor>);
                let r = ops::backup_rt(rt_b, &arch_b, &hook, &w.src, *opts, &[]);
                ensure!(r.panic.is_none(), "C17/backup-panic", "step {i} replay B: {}", r.describe());
                backups += 1;
            }
            (StepKind::Delete { requested, dry_run, .. }, _) => {
                let _ = ids_before;
                let ctl = Ctl::new_unserialized(&arch_b, Plan::None, case.perturb.clone());
                let hook: Hook = Some(ctl as Arc<dyn conserve::transport::verif::Interceptor>);
                let r = ops::delete_bands_rt(rt_b, &arch_b, &hook, requested, *dry_run, false);
                ensure!(r.panic.is_none(), "C17/delete-panic", "step {i} replay B: {}", r.describe());
            }
        }
        let a = format::raw_tree(&w.arch);
        let b = format::raw_tree(&arch_b);
        compare(&a, &b, i)?;
        evals += 1;
    }
    let ra = format::scan(&w.arch);
    let multi_hunk = ra.bands.values().any(|b| b.hunks.len() >= 2);
    let combined = ra.bands.values().any(|b| {
        let mut per: BTreeMap<&str, usize> = BTreeMap::new();
        for e in b.all_entries() {
            for a in &e.addrs {
                *per.entry(&a.hash).or_default() += 1;
            }
        }
        per.values().any(|n| *n >= 2)
    });
    cx.add_evals(evals);
    cx.label(format!("workers={}", case.workers));
    cx.label_if(!case.perturb.is_empty(), "perturbed");
    cx.nontrivial = backups >= 2 && multi_hunk && combined;
    Ok(())
}

pub fn prop() -> Prop<Case> {
    Prop {
        id: "C17",
        level: "exploration",
        rule: "case = (history as C02 with <=10 ops quick / <=20 thorough, worker count in {1,2,4}, 0-23 perturbation bytes). Every step is applied to the one source and then to two fresh archives: A on a current-thread runtime with serialized storage operations, B on a multi-thread runtime with that many workers, storage operations not serialized (conserve's concurrent listing/validation tasks really overlap) and each preceded by a yield/sleep chosen by the perturbation bytes; interruptions are addressed by the ordinal of the mutating operation in both. After every archive operation the two directories must have the same relative file set and byte-identical contents, except that start_time is removed from parsed BANDHEADs and end_time from parsed BANDTAILs. Non-trivial = >=2 backups, some band with >=2 hunks and some combined block; distinct by case hash; evaluations = archive-state comparisons",
        assumptions: &[
            "evidence about independence from task scheduling (two runtime flavours + generated perturbations), not a proof over all schedules",
        ],
        cases: |t| t.pick(1000, 15_000),
        strategy,
        run,
        enumerate: None,
        exhaustive: |_| false,
        max_shrink_iters: 500,
    }
}
