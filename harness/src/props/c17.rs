//! C17 — the archive is a pure function of the source and the operation history.

use std::collections::BTreeMap;
use std::sync::Arc;

use proptest::prelude::*;
use serde::{Deserialize, Serialize};

use crate::engine::{CaseResult, Cx, Prop, Tier};
use crate::format;
use crate::history::{History, Op, StepKind, World, history_strategy};
use crate::hooks::{Ctl, Plan};
use crate::ops::{self, Hook, Opts, Rt};
use crate::tree::Tree;
use crate::props::c02::hist_cfg;
use crate::{ensure, fail};

#[derive(Debug, Clone, Serialize, Deserialize)]
pub struct Case {
    pub hist: History,
    /// Worker threads of the second replay's runtime.
    pub workers: u8,
    /// Perturbation bytes for the second replay.
    pub perturb: Vec<u8>,
    /// If set, every delete/gc step has one failing block removal: the i-th (of the sorted
    /// list) block that the delete is going to remove, the same path in both replays.
    #[serde(default)]
    pub fail_block_removal: Option<u16>,
}

fn strategy(tier: Tier) -> BoxedStrategy<Case> {
    let mut cfg = hist_cfg(tier);
    cfg.max_ops = tier.pick(10, 20);
    (
        history_strategy(cfg),
        prop::sample::select(vec![1u8, 2, 4]),
        prop::collection::vec(any::<u8>(), 0..24),
        prop::option::weighted(0.3, any::<u16>()),
    )
        .prop_map(|(hist, workers, perturb, fail_block_removal)| Case { hist, workers, perturb, fail_block_removal })
        .boxed()
}

/// Storage that takes its time over one write: the operation whose path ends in `suffix`
/// does not start before the wall clock reaches `until` (seconds since the epoch).
struct SlowAt {
    suffix: &'static str,
    until: f64,
}

impl conserve::transport::verif::Interceptor for SlowAt {
    fn before(&self, call: &conserve::transport::verif::Call<'_>) -> conserve::transport::verif::Action {
        if call.path.ends_with(self.suffix) {
            loop {
                let now = std::time::SystemTime::now().duration_since(std::time::UNIX_EPOCH).unwrap().as_secs_f64();
                if now >= self.until {
                    break;
                }
                std::thread::sleep(std::time::Duration::from_millis(50));
                crate::engine::heartbeat();
            }
        }
        conserve::transport::verif::Action::Proceed
    }
}

/// Storage whose first write under `prefix` does not start before the wall clock reaches `until`.
struct SlowAtPrefix {
    prefix: &'static str,
    until: f64,
    done: std::sync::atomic::AtomicBool,
}

impl conserve::transport::verif::Interceptor for SlowAtPrefix {
    fn before(&self, call: &conserve::transport::verif::Call<'_>) -> conserve::transport::verif::Action {
        use std::sync::atomic::Ordering;
        if call.verb == conserve::transport::record::Verb::Write && call.path.starts_with(self.prefix) && !self.done.swap(true, Ordering::SeqCst) {
            loop {
                let now = std::time::SystemTime::now().duration_since(std::time::UNIX_EPOCH).unwrap().as_secs_f64();
                if now >= self.until {
                    break;
                }
                std::thread::sleep(std::time::Duration::from_millis(200));
                crate::engine::heartbeat();
            }
        }
        conserve::transport::verif::Action::Proceed
    }
}

/// Storage that refuses to remove the block files whose name starts with one of 0-7.
struct RefuseHalfOfTheBlocks;

impl conserve::transport::verif::Interceptor for RefuseHalfOfTheBlocks {
    fn before(&self, call: &conserve::transport::verif::Call<'_>) -> conserve::transport::verif::Action {
        use conserve::transport::record::Verb;
        use conserve::transport::verif::Action;
        let refuse = call.verb == Verb::RemoveFile
            && call.path.starts_with("d/")
            && call.path.rsplit('/').next().and_then(|n| n.chars().next()).map_or(false, |c| ('0'..='7').contains(&c));
        if refuse { Action::Fail(conserve::transport::ErrorKind::PermissionDenied) } else { Action::Proceed }
    }
}

fn normalise(path: &str, bytes: &[u8]) -> Vec<u8> {
    let key = if path.ends_with("/BANDHEAD") {
        Some("start_time")
    } else if path.ends_with("/BANDTAIL") {
        Some("end_time")
    } else {
        None
    };
    if let Some(k) = key {
        if let Ok(serde_json::Value::Object(mut m)) = serde_json::from_slice::<serde_json::Value>(bytes) {
            m.remove(k);
            return serde_json::to_vec(&serde_json::Value::Object(m)).unwrap();
        }
    }
    bytes.to_vec()
}

fn compare(a: &BTreeMap<String, Vec<u8>>, b: &BTreeMap<String, Vec<u8>>, step: usize) -> CaseResult {
    for (p, ba) in a {
        match b.get(p) {
            None => fail!("C17/file-set-differs", "after step {step}: {p} exists in replay A but not in replay B"),
            Some(bb) => {
                if normalise(p, ba) != normalise(p, bb) {
                    let class = if p.starts_with("d/") {
                        "block"
                    } else if p.contains("/i/") {
                        "hunk"
                    } else {
                        "meta"
                    };
                    fail!(
                        format!("C17/content-differs/{class}"),
                        "after step {step}: {p} differs between the two replays ({} vs {} bytes)",
                        ba.len(),
                        bb.len()
                    );
                }
            }
        }
    }
    for p in b.keys() {
        ensure!(a.contains_key(p), "C17/file-set-differs", "after step {step}: {p} exists in replay B but not in replay A");
    }
    Ok(())
}

fn run(case: &Case, cx: &mut Cx) -> CaseResult {
    let mut w = World::for_history(&cx.scratch, &case.hist);
    let arch_b = cx.dir("arch_b");
    let c = ops::create_archive(&arch_b);
    ensure!(c.clean(), "C17/create", "{}", c.describe());
    let rt_b = Rt::Multi(case.workers as usize);
    let mut backups = 0;
    let mut evals = 0u64;
    for (i, op) in case.hist.ops.iter().enumerate() {
        let ids_before: Vec<u32> = w.bands.keys().copied().collect();
        // a faulty delete is performed by hand on both archives
        if let (Some(frac), Op::Delete { .. } | Op::Gc) = (case.fail_block_removal, op) {
            let (sel, dry_run) = match op {
                Op::Delete { sel, dry_run } => (sel.clone(), *dry_run),
                _ => (vec![], false),
            };
            let mut requested: Vec<u32> = sel
                .iter()
                .filter(|_| !ids_before.is_empty())
                .map(|i| ids_before[(*i as usize * ids_before.len()) >> 16])
                .collect();
            requested.sort();
            requested.dedup();
            let pre = format::scan(&w.arch);
            let kept: Vec<u32> = ids_before.iter().copied().filter(|b| !requested.contains(b)).collect();
            let referenced = pre.referenced_hashes(kept.iter().copied());
            let doomed: Vec<String> = pre
                .blocks
                .iter()
                .filter(|(h, b)| b.file_len > 0 && !referenced.contains(*h))
                .map(|(_, b)| b.relpath.clone())
                .collect();
            let plan = |_: ()| match doomed.is_empty() {
                true => Plan::None,
                false => Plan::FailAtKey {
                    key: crate::hooks::Key {
                        verb: crate::hooks::V::RemoveFile,
                        path: doomed[(frac as usize * doomed.len()) >> 16].clone(),
                        occ: 0,
                    },
                    kind: crate::hooks::Kind::Other,
                },
            };
            let ctl_a = Ctl::new(&w.arch, plan(()));
            let hook_a: Hook = Some(ctl_a as Arc<dyn conserve::transport::verif::Interceptor>);
            let ra = ops::delete_bands(&w.arch, &hook_a, &requested, dry_run, false);
            ensure!(ra.panic.is_none(), "C17/delete-panic", "step {i} replay A: {}", ra.describe());
            if ra.is_ok() && !dry_run {
                for id in &requested {
                    w.bands.remove(id);
                }
            }
            let ctl_b = Ctl::new_unserialized(&arch_b, plan(()), case.perturb.clone());
            let hook_b: Hook = Some(ctl_b as Arc<dyn conserve::transport::verif::Interceptor>);
            let rb = ops::delete_bands_rt(rt_b, &arch_b, &hook_b, &requested, dry_run, false);
            ensure!(rb.panic.is_none(), "C17/delete-panic", "step {i} replay B: {}", rb.describe());
            ensure!(
                ra.result.is_ok() == rb.result.is_ok(),
                "C17/outcome-differs",
                "step {i}: delete with a failing block removal: A {} / B {}",
                ra.describe(),
                rb.describe()
            );
            let a = format::raw_tree(&w.arch);
            let b = format::raw_tree(&arch_b);
            compare(&a, &b, i)?;
            evals += 1;
            cx.label("delete-with-failing-block-removal");
            continue;
        }
        let step = w.apply(op);
        // replay the same operation on B with another runtime flavour and perturbed timing
        match (&step, op) {
            (StepKind::Mutated, _) => continue,
            (StepKind::Backup { opts, .. }, op) => {
                let plan = match op {
                    Op::BackupInterrupted { k, torn, .. } => Plan::FreezeAtMutating { k: *k as usize, torn: *torn },
                    _ => Plan::None,
                };
                let ctl = Ctl::new_unserialized(&arch_b, plan, case.perturb.clone());
                let hook: Hook = Some(ctl as Arc<dyn conserve::transport::verif::Interceptor>);
                let r = ops::backup_rt(rt_b, &arch_b, &hook, &w.src, *opts, &[]);
                ensure!(r.panic.is_none(), "C17/backup-panic", "step {i} replay B: {}", r.describe());
                // the same renumbering of the first version as in replay A
                if case.hist.first_band_id != 0 && ids_before.is_empty() && arch_b.join("b0000").is_dir() {
                    std::fs::rename(arch_b.join("b0000"), arch_b.join(format::band_dirname(case.hist.first_band_id))).unwrap();
                }
                backups += 1;
            }
            (StepKind::Delete { requested, dry_run, .. }, _) => {
                let _ = ids_before;
                let ctl = Ctl::new_unserialized(&arch_b, Plan::None, case.perturb.clone());
                let hook: Hook = Some(ctl as Arc<dyn conserve::transport::verif::Interceptor>);
                let r = ops::delete_bands_rt(rt_b, &arch_b, &hook, requested, *dry_run, false);
                ensure!(r.panic.is_none(), "C17/delete-panic", "step {i} replay B: {}", r.describe());
            }
        }
        let a = format::raw_tree(&w.arch);
        let b = format::raw_tree(&arch_b);
        compare(&a, &b, i)?;
        evals += 1;
    }
    let ra = format::scan(&w.arch);
    let multi_hunk = ra.bands.values().any(|b| b.hunks.len() >= 2);
    let combined = ra.bands.values().any(|b| {
        let mut per: BTreeMap<&str, usize> = BTreeMap::new();
        for e in b.all_entries() {
            for a in &e.addrs {
                *per.entry(&a.hash).or_default() += 1;
            }
        }
        per.values().any(|n| *n >= 2)
    });
    cx.add_evals(evals);
    cx.label(format!("workers={}", case.workers));
    cx.label_if(!case.perturb.is_empty(), "perturbed");
    cx.nontrivial = backups >= 2 && multi_hunk && combined;
    Ok(())
}

/// Scale probes (see probes.rs): the two-replay comparison on 10 015 hunks and multi-MiB blocks.
fn enumerate(tier: Tier, idx: u32, of: u32, cx: &mut Cx) -> CaseResult {
    if !crate::probes::mine(idx, of) {
        return Ok(());
    }
    for (name, (opts, tree)) in [
        ("many-hunks", crate::probes::many_hunks_tree(10_012)),
        ("big-blocks", crate::probes::big_blocks_tree()),
    ] {
        crate::engine::heartbeat();
        let sub = cx.dir(name);
        std::fs::create_dir_all(&sub).unwrap();
        let mut cx2 = crate::engine::sub_cx(cx, sub.clone());
        let case = Case {
            // two backups: the second is incremental over the first
            hist: History { initial: tree, ops: vec![Op::Backup(opts), Op::Backup(Opts { hunk: 1000, ..opts })], first_band_id: 0 },
            workers: 4,
            perturb: vec![3, 0, 1, 2, 0, 0, 1],
            fail_block_removal: None,
        };
        run(&case, &mut cx2).map_err(|mut f| {
            f.signature = format!("{}/probe-{name}", f.signature);
            f
        })?;
        crate::engine::force_remove(&sub);
        cx.add_evals(1);
        cx.inner_nontrivial += 1;
    }
    // Independence from the wall clock: a file whose mtime lies two seconds ahead of the clock
    // when the first replay runs and behind it when the second one runs. (The only place where
    // a check reads the clock: that is the point of this probe.)
    crate::engine::heartbeat();
    let now = std::time::SystemTime::now().duration_since(std::time::UNIX_EPOCH).unwrap().as_secs() as i64;
    let m = crate::probes::plain_meta();
    let mut t = Tree(Default::default());
    t.0.insert("/".into(), crate::tree::Node { kind: crate::tree::Kind::Dir, meta: crate::tree::Meta { mode: 0o755, ..m } });
    for (name, pool, dt) in [("a", 2u8, -100i64), ("b-future", 3, 2), ("c", 4, -50)] {
        t.0.insert(
            format!("/{name}"),
            crate::tree::Node { kind: crate::tree::Kind::File { pool, len: 300 }, meta: crate::tree::Meta { mtime_s: now + dt, ..m } },
        );
    }
    let sub = cx.dir("wall-clock");
    std::fs::create_dir_all(&sub).unwrap();
    let src = sub.join("src");
    crate::tree::materialise(&t, &src);
    let o = Opts { hunk: 100, block: 1 << 16, cap: 1 << 16 };
    let mut trees = vec![];
    for (i, name) in ["arch_a", "arch_b"].iter().enumerate() {
        if i == 1 {
            // let the clock pass the file's mtime
            let target = now + 3;
            while (std::time::SystemTime::now().duration_since(std::time::UNIX_EPOCH).unwrap().as_secs() as i64) < target {
                std::thread::sleep(std::time::Duration::from_millis(100));
                crate::engine::heartbeat();
            }
        }
        let arch = sub.join(name);
        ensure!(ops::create_archive(&arch).clean(), "C17/create", "probe");
        for round in 0..3 {
            // In the first replay the second backup runs on slow storage: it starts before
            // the file's mtime and its index hunk (and then its tail) is written after it, so that the file's mtime
            // falls between the start and end times the band records.
            let hook: Hook = if i == 0 && round == 1 {
                Some(Arc::new(SlowAt { suffix: "b0001/i/00000/000000000", until: now as f64 + 2.1 }) as Arc<dyn conserve::transport::verif::Interceptor>)
            } else {
                None
            };
            let b = ops::backup(&arch, &hook, &src, o, &[]);
            ensure!(!ops::backup_reported_error(&b), "C17/probe-wall-clock/backup", "{}", b.describe());
        }
        trees.push(format::raw_tree(&arch));
    }
    compare(&trees[0], &trees[1], 1).map_err(|mut f| {
        f.signature = format!("{}/probe-wall-clock", f.signature);
        f.message = format!("replays two seconds before and one second after a file's mtime differ: {}", f.message);
        f
    })?;
    crate::engine::force_remove(&sub);
    cx.add_evals(1);
    cx.inner_nontrivial += 1;

    // One replay in which the storage stalls in the middle of a backup: for 31 s in the quick
    // tier (the other workers generate meanwhile), for 62 s in the thorough tier. How long a
    // backup takes must not shape what it writes.
    let stall_s = if tier == Tier::Thorough { 62.0 } else { 31.0 };
    {
        let m = crate::probes::plain_meta();
        let mut t = Tree(Default::default());
        t.0.insert("/".into(), crate::tree::Node { kind: crate::tree::Kind::Dir, meta: crate::tree::Meta { mode: 0o755, ..m } });
        for (name, pool, len) in [("a-small", 2u8, 200u32), ("b-small", 3, 300), ("c-big", 4, 70_000), ("d-small", 5, 250), ("e-small", 6, 100)] {
            t.0.insert(format!("/{name}"), crate::tree::Node { kind: crate::tree::Kind::File { pool, len }, meta: m });
        }
        let sub = cx.dir("stall");
        std::fs::create_dir_all(&sub).unwrap();
        let src = sub.join("src");
        crate::tree::materialise(&t, &src);
        let o = Opts { hunk: 100, block: 1 << 20, cap: 1 << 12 };
        let mut trees = vec![];
        for (i, name) in ["arch_a", "arch_b"].iter().enumerate() {
            let arch = sub.join(name);
            ensure!(ops::create_archive(&arch).clean(), "C17/create", "probe");
            // the stall sits at the first block write of the first replay
            let hook: Hook = if i == 0 {
                let until = std::time::SystemTime::now().duration_since(std::time::UNIX_EPOCH).unwrap().as_secs_f64() + stall_s;
                Some(Arc::new(SlowAtPrefix { prefix: "d/", until, done: std::sync::atomic::AtomicBool::new(false) }) as Arc<dyn conserve::transport::verif::Interceptor>)
            } else {
                None
            };
            let b = ops::backup(&arch, &hook, &src, o, &[]);
            ensure!(!ops::backup_reported_error(&b), "C17/probe-stall/backup", "{}", b.describe());
            trees.push(format::raw_tree(&arch));
        }
        compare(&trees[0], &trees[1], 1).map_err(|mut f| {
            f.signature = format!("{}/probe-stall", f.signature);
            f.message = format!("a backup whose storage stalled for {stall_s} s wrote something else than the same backup on fast storage: {}", f.message);
            f
        })?;
        crate::engine::force_remove(&sub);
        cx.add_evals(1);
        cx.inner_nontrivial += 1;
    }

    // Many failing removals: 400 one-block files, the version deleted on storage that
    // refuses to remove about half of the blocks. What is left must not depend on the run.
    crate::engine::heartbeat();
    let tree = crate::tree::wide_tree(400, 2, 30, crate::probes::plain_meta());
    let sub = cx.dir("many-failing-removals");
    std::fs::create_dir_all(&sub).unwrap();
    let src = sub.join("src");
    crate::tree::materialise(&tree, &src);
    let mut trees = vec![];
    for name in ["arch_a", "arch_b"] {
        let arch = sub.join(name);
        ensure!(ops::create_archive(&arch).clean(), "C17/create", "probe");
        let b = ops::backup(&arch, &None, &src, Opts { hunk: 50, block: 1 << 16, cap: 0 }, &[]);
        ensure!(!ops::backup_reported_error(&b), "C17/probe-many-failing-removals/backup", "{}", b.describe());
        let hook: Hook = Some(Arc::new(RefuseHalfOfTheBlocks) as Arc<dyn conserve::transport::verif::Interceptor>);
        let d = ops::delete_bands(&arch, &hook, &[0], false, false);
        ensure!(d.panic.is_none(), "C17/probe-many-failing-removals/delete-panic", "{}", d.describe());
        trees.push(format::raw_tree(&arch));
    }
    let refused = trees[0].keys().filter(|p| p.starts_with("d/") && !p.ends_with('/')).count();
    ensure!(refused >= 100, "C17/harness/probe", "only {refused} blocks were refused");
    compare(&trees[0], &trees[1], 1).map_err(|mut f| {
        f.signature = format!("{}/probe-many-failing-removals", f.signature);
        f.message = format!("two deletes of the same version on storage that refuses the same removals leave different files: {}", f.message);
        f
    })?;
    crate::engine::force_remove(&sub);
    cx.add_evals(1);
    cx.inner_nontrivial += 1;
    Ok(())
}

pub fn prop() -> Prop<Case> {
    Prop {
        id: "C17",
        level: "exploration",
        rule: "case = (history as C02 with <=10 ops quick / <=20 thorough, worker count in {1,2,4}, 0-23 perturbation bytes). Every step is applied to the one source and then to two fresh archives: A on a current-thread runtime with serialized storage operations, B on a multi-thread runtime with that many workers, storage operations not serialized (conserve's concurrent listing/validation tasks really overlap) and each preceded by a yield/sleep chosen by the perturbation bytes; interruptions are addressed by the ordinal of the mutating operation in both; in 30% of cases every delete/gc step additionally has one failing block removal, addressed by path (the i-th of the sorted blocks the delete is about to remove), identical in both replays. After every archive operation the two directories must have the same relative file set and byte-identical contents, except that start_time is removed from parsed BANDHEADs and end_time from parsed BANDTAILs. Non-trivial = >=2 backups, some band with >=2 hunks and some combined block; distinct by case hash; evaluations = archive-state comparisons; plus fixed probes per run: two backups (the second incremental) of the 10 012-file tree and of the multi-MiB-block tree under both runtime flavours, a wall-clock probe (three backups replayed two seconds before and one second after the mtime of one of the files, the second backup of the first replay on slow storage so that its band's start and end times bracket that mtime), a version of 400 one-block files deleted twice on storage that refuses to remove half of the blocks, and one backup replayed on storage that stalls for 31 s (quick) or 62 s (thorough) at its first block write",
        assumptions: &[
            "evidence about independence from task scheduling (two runtime flavours + generated perturbations), not a proof over all schedules",
        ],
        cases: |t| t.pick(1000, 15_000),
        strategy,
        run,
        enumerate: Some(enumerate),
        exhaustive: |_| false,
        max_shrink_iters: 500,
    }
}
