//! C13 — everything written conforms to the documented archive format.

use std::cmp::Ordering;
use std::collections::BTreeMap;

use proptest::prelude::*;
use serde::{Deserialize, Serialize};

use crate::engine::{CaseResult, Cx, Prop, Tier};
use crate::format::{self, FileState, RawArchive, ref_cmp, ref_valid};
use crate::history::{BandState, History, Op, StepKind, World, history_strategy};
use crate::ops::Opts;
use crate::props::c02::hist_cfg;
use crate::tree::{self, Kind, Tree, TreeCfg};
use crate::{ensure, fail};

#[derive(Debug, Clone, Serialize, Deserialize)]
pub enum Case {
    Single { opts: Opts, tree: Tree },
    Hist(History),
    /// The source changes while it is backed up: when the backup reports `when`-th file,
    /// a later file of the same directory is cut to a fraction of its length (or extended).
    /// Whatever gets recorded, the archive must still conform.
    Changing {
        opts: Opts,
        tree: Tree,
        when: u16,
        victim: u16,
        keep: u16,
        grow: bool,
        /// Instead of changing its length, replace the file by a directory (reading it fails).
        #[serde(default)]
        to_dir: bool,
    },
}

fn strategy(tier: Tier) -> BoxedStrategy<Case> {
    prop_oneof![
        300 => (tree::opts_tree_strategy(TreeCfg::full()), prop::option::weighted(0.3, (any::<u16>(), any::<u16>()))).prop_map(|((opts, mut tree), twins)| {
            // in three cases of ten two files are equal in every respect: they are written as
            // hard links of one another (see tree::set_link_twins)
            if let Some((i, j)) = twins {
                tree::make_twins(&mut tree, i, j);
            }
            Case::Single { opts, tree }
        }),
        1 => tree::wide_strategy(tier == Tier::Thorough).prop_map(|(opts, tree)| Case::Single { opts, tree }),
        100 => history_strategy(hist_cfg(tier)).prop_map(Case::Hist),
        40 => (
            tree::opts_tree_strategy(TreeCfg { max_children: 8, links: false, ..TreeCfg::plain() }),
            any::<u16>(),
            any::<u16>(),
            prop_oneof![1 => Just(0u16), 4 => any::<u16>()],
            prop::bool::weighted(0.2),
            prop::bool::weighted(0.25),
        )
            .prop_map(|((opts, tree), when, victim, keep, grow, to_dir)| Case::Changing { opts, tree, when, victim, keep, grow, to_dir }),
    ]
    .boxed()
}

/// Conformance of the whole archive directory. `sources` gives, per band id, the tree the
/// source held when that band was written (complete or interrupted), when known.
/// `torn_ok`: zero-length leftovers of a killed write are tolerated (counted in the result).
pub fn check_conformance(
    ra: &RawArchive,
    sources: &BTreeMap<u32, Tree>,
    torn_ok: bool,
) -> Result<u32, crate::engine::Failure> {
    let mut leftovers = 0u32;
    match &ra.header {
        FileState::Ok(v) => ensure!(
            v.get("conserve_archive_version").and_then(|x| x.as_str()) == Some("0.6"),
            "C13/header",
            "CONSERVE = {v}"
        ),
        other => fail!("C13/header", "CONSERVE header {other:?}"),
    }
    for (hash, b) in &ra.blocks {
        if b.file_len == 0 && torn_ok {
            leftovers += 1;
            continue;
        }
        ensure!(b.subdir_ok, "C13/block-location", "block {} not under its first three hex digits / not 128 hex", b.relpath);
        ensure!(
            b.content.is_ok(),
            "C13/block-undecodable",
            "block {}: {:?}",
            b.relpath,
            b.content.as_ref().err()
        );
        ensure!(b.hash_ok, "C13/block-hash", "block {hash} is not named by the BLAKE2b-512 of its content");
    }
    for (id, band) in &ra.bands {
        let closed = band.tail.present_nonempty();
        match &band.head {
            FileState::Ok(v) => {
                ensure!(
                    v.get("start_time").map(|x| x.is_i64()).unwrap_or(false)
                        && v.get("band_format_version").map(|x| x.is_string()).unwrap_or(false),
                    "C13/band-head-keys",
                    "band {id} head {v}"
                );
            }
            FileState::Absent => ensure!(!closed && band.hunks.is_empty(), "C13/band-head-missing", "band {id} has content but no head"),
            FileState::Empty if torn_ok => leftovers += 1,
            other => fail!("C13/band-head", "band {id} head {other:?}"),
        }
        let mut prev: Option<String> = None;
        let n_hunks = band.hunks.len();
        for (i, h) in band.hunks.iter().enumerate() {
            ensure!(h.name_ok, "C13/hunk-name", "hunk file {} is not i/%05d/%09d", h.relpath);
            ensure!(
                h.number as usize == i,
                "C13/hunk-numbering",
                "band {id}: hunk files are not numbered consecutively from 0: position {i} is {}",
                h.relpath
            );
            if h.file_len == 0 && torn_ok && i + 1 == n_hunks && !closed {
                leftovers += 1;
                continue;
            }
            let entries = match &h.entries {
                Ok(e) => e,
                Err(e) => fail!("C13/hunk-undecodable", "{}: {e}", h.relpath),
            };
            ensure!(!entries.is_empty(), "C13/hunk-empty", "{} holds no entries", h.relpath);
            for e in entries {
                ensure!(ref_valid(&e.apath), "C13/apath-invalid", "{}: {:?}", h.relpath, e.apath);
                if let Some(p) = &prev {
                    ensure!(
                        ref_cmp(p, &e.apath) == Ordering::Less,
                        "C13/entries-not-increasing",
                        "band {id}: {:?} is followed by {:?} (in {})",
                        p,
                        e.apath,
                        h.relpath
                    );
                }
                prev = Some(e.apath.clone());
                ensure!(
                    matches!(e.kind.as_str(), "File" | "Dir" | "Symlink"),
                    "C13/kind",
                    "{}: kind {:?}",
                    e.apath,
                    e.kind
                );
                ensure!(
                    e.target.is_some() == (e.kind == "Symlink"),
                    "C13/target-iff-symlink",
                    "band {id} {}: kind {} target {:?}",
                    e.apath,
                    e.kind,
                    e.target
                );
                ensure!(
                    e.addrs.is_empty() || e.kind == "File",
                    "C13/addrs-on-non-file",
                    "band {id} {}: kind {} has addrs",
                    e.apath,
                    e.kind
                );
                for a in &e.addrs {
                    let Some(b) = ra.blocks.get(&a.hash) else {
                        fail!("C13/address-block-missing", "band {id} {}: block {} absent", e.apath, &a.hash[..12.min(a.hash.len())]);
                    };
                    let Ok(c) = &b.content else {
                        fail!("C13/address-block-undecodable", "band {id} {}: block {}", e.apath, b.relpath);
                    };
                    ensure!(
                        a.start.checked_add(a.len).map(|end| end as usize <= c.len()).unwrap_or(false),
                        "C13/address-outside-block",
                        "band {id} {}: {}+{} > {}",
                        e.apath,
                        a.start,
                        a.len,
                        c.len()
                    );
                }
                if let Some(src) = sources.get(id) {
                    if e.kind == "File" {
                        match src.0.get(&e.apath).map(|n| &n.kind) {
                            Some(Kind::File { len, .. }) => ensure!(
                                e.size() == *len as u64,
                                "C13/address-lengths-vs-file-size",
                                "band {id} {}: addresses sum to {} but the file had {} bytes",
                                e.apath,
                                e.size(),
                                len
                            ),
                            other => fail!("C13/entry-not-in-source", "band {id} {}: source had {other:?}", e.apath),
                        }
                    }
                }
            }
        }
        match &band.tail {
            FileState::Absent => {}
            FileState::Ok(v) => {
                ensure!(v.get("end_time").map(|x| x.is_i64()).unwrap_or(false), "C13/band-tail-keys", "band {id} tail {v}");
                ensure!(
                    v.get("index_hunk_count").and_then(|x| x.as_u64()) == Some(n_hunks as u64),
                    "C13/tail-hunk-count",
                    "band {id}: tail says {:?} hunks, {} hunk files exist",
                    v.get("index_hunk_count"),
                    n_hunks
                );
            }
            FileState::Empty if torn_ok => leftovers += 1,
            other => fail!("C13/band-tail", "band {id} tail {other:?}"),
        }
    }
    Ok(leftovers)
}

fn features(ra: &RawArchive) -> (bool, bool) {
    let multi_hunk = ra.bands.values().any(|b| b.hunks.len() >= 2);
    let mut combined = false;
    for b in ra.bands.values() {
        let mut per: BTreeMap<&str, usize> = BTreeMap::new();
        for e in b.all_entries() {
            for a in &e.addrs {
                *per.entry(&a.hash).or_default() += 1;
            }
        }
        if per.values().any(|n| *n >= 2) {
            combined = true;
        }
    }
    (multi_hunk, combined)
}

#[allow(clippy::too_many_arguments)]
fn run_changing(opts: Opts, tree: &Tree, when: u16, victim: u16, keep: u16, grow: bool, to_dir: bool, cx: &mut Cx) -> CaseResult {
    use crate::ops;
    let src = cx.dir("src");
    let arch = cx.dir("arch");
    tree::materialise(tree, &src);
    let mut files: Vec<(&String, u32, u8)> = tree
        .0
        .iter()
        .filter_map(|(p, n)| match n.kind {
            Kind::File { len, pool } if len > 0 => Some((p, len, pool)),
            _ => None,
        })
        .collect();
    files.sort_by(|a, b| ref_cmp(a.0, b.0));
    if files.len() < 2 {
        return Ok(());
    }
    let wi = (when as usize * (files.len() - 1)) >> 16;
    let trigger = files[wi].0.clone();
    let later: Vec<&(&String, u32, u8)> = files[wi + 1..].iter().filter(|f| tree::parent_of(f.0) == tree::parent_of(&trigger)).collect();
    let chosen = if later.is_empty() { None } else { Some(*later[(victim as usize * later.len()) >> 16]) };
    let c = ops::create_archive(&arch);
    ensure!(c.clean(), "C13/create", "{}", c.describe());
    if let Some((vp, vlen, vpool)) = chosen {
        let new_len = if grow { vlen + 1 + (keep as u32 % 50) } else { ((keep as u64 * vlen as u64) >> 16) as u32 };
        let bytes = tree::content_bytes(vpool, new_len.max(vlen));
        let bytes = bytes[..new_len as usize].to_vec();
        let path = tree::fs_path(&src, vp);
        ops::set_on_change(Some(Box::new(move |apath: &str| {
            if apath == trigger {
                if to_dir {
                    let _ = std::fs::remove_file(&path);
                    let _ = std::fs::create_dir(&path);
                } else {
                    let _ = std::fs::write(&path, &bytes);
                }
            }
        })));
    }
    let b = ops::backup(&arch, &None, &src, opts, &[]);
    ops::set_on_change(None);
    ensure!(b.panic.is_none() && b.result.is_ok(), "C13/backup-of-changing-tree-failed", "{}", b.describe());
    let ra = format::scan(&arch);
    check_conformance(&ra, &BTreeMap::new(), false).map_err(|mut f| {
        f.signature = format!("{}/source-changed-during-backup", f.signature);
        f
    })?;
    // every file that was left alone is recorded with addresses that give its own bytes
    let victim_path: Option<&String> = chosen.map(|c| c.0);
    for band in ra.bands.values() {
        for e in band.all_entries() {
            if e.kind != "File" || Some(&e.apath) == victim_path {
                continue;
            }
            if let Some(tree::Node { kind: Kind::File { pool, len }, .. }) = tree.0.get(&e.apath) {
                let got = ra.file_bytes(e).map_err(|m| crate::engine::Failure::new("C13/address-block-missing/source-changed-during-backup", m))?;
                ensure!(
                    got == tree::content_bytes(*pool, *len),
                    "C13/addresses-give-other-bytes/source-changed-during-backup",
                    "{}: untouched during the backup, but its recorded addresses give {} bytes that are not its content ({} bytes); the file that changed was {:?}",
                    e.apath,
                    got.len(),
                    len,
                    victim_path
                );
            }
        }
    }
    // ... and none of them is missing from the version
    if let Some(band) = ra.bands.get(&0) {
        let recorded: std::collections::BTreeSet<&str> = band.all_entries().iter().map(|e| e.apath.as_str()).collect();
        for p in tree.0.keys() {
            if Some(p) != victim_path {
                ensure!(
                    recorded.contains(p.as_str()),
                    "C13/entry-missing/source-changed-during-backup",
                    "{p} was not touched during the backup but the version has no entry for it (the file that changed was {victim_path:?}; backup: {})",
                    b.describe()
                );
            }
        }
    }
    cx.add_evals(1);
    cx.label("tree-changing-during-backup");
    cx.label_if(to_dir && chosen.is_some(), "file-became-directory-during-backup");
    cx.nontrivial = chosen.is_some();
    Ok(())
}

fn run(case: &Case, cx: &mut Cx) -> CaseResult {
    if let Case::Changing { opts, tree, when, victim, keep, grow, to_dir } = case {
        return run_changing(*opts, tree, *when, *victim, *keep, *grow, *to_dir, cx);
    }
    let (initial, ops): (&Tree, Vec<Op>) = match case {
        Case::Single { opts, tree } => (tree, vec![Op::Backup(*opts)]),
        Case::Hist(h) => (&h.initial, h.ops.clone()),
        Case::Changing { .. } => unreachable!(),
    };
    struct Unlink;
    impl Drop for Unlink {
        fn drop(&mut self) {
            tree::set_link_twins(false);
        }
    }
    let _unlink = Unlink;
    tree::set_link_twins(matches!(case, Case::Single { .. }));
    let mut w = World::new(&cx.scratch, initial);
    tree::set_link_twins(false);
    if let Case::Hist(h) = case {
        w.first_band_id = h.first_band_id;
    }
    let mut sources: BTreeMap<u32, Tree> = BTreeMap::new();
    let mut evals = 0u64;
    let mut any_multi = false;
    let mut any_combined = false;
    let mut leftovers_total = 0;
    let mut torn_seen = false;
    for (i, op) in ops.iter().enumerate() {
        if let Op::BackupInterrupted { torn: true, .. } = op {
            torn_seen = true;
        }
        let step = w.apply(op);
        match &step {
            StepKind::Mutated => continue,
            StepKind::Backup { new_band, report, .. } => {
                ensure!(report.panic.is_none(), "C13/backup-panic", "step {i}: {}", report.describe());
                if let Some(nb) = new_band {
                    sources.insert(*nb, w.tree.clone());
                }
            }
            StepKind::Delete { report, .. } => {
                ensure!(report.panic.is_none(), "C13/delete-panic", "step {i}: {}", report.describe());
            }
        }
        sources.retain(|id, _| w.bands.contains_key(id));
        for (id, st) in &w.bands {
            if let BandState::Complete(t) = st {
                sources.insert(*id, t.clone());
            }
        }
        let ra = format::scan(&w.arch);
        let left = check_conformance(&ra, &sources, torn_seen).map_err(|mut f| {
            f.message = format!("after step {i} ({}): {}", op_name(op), f.message);
            f
        })?;
        leftovers_total += left;
        evals += 1;
        let (m, c) = features(&ra);
        any_multi |= m;
        any_combined |= c;
    }
    cx.add_evals(evals);
    cx.label_if(matches!(case, Case::Hist(_)), "history");
    cx.label_if(any_multi, "multi-hunk");
    cx.label_if(any_combined, "combined-block");
    cx.label_if(leftovers_total > 0, "zero-length-leftover-skipped");
    cx.nontrivial = any_multi && any_combined;
    Ok(())
}

fn op_name(op: &Op) -> &'static str {
    match op {
        Op::Mutate(_) => "mutate",
        Op::Backup(_) => "backup",
        Op::BackupInterrupted { .. } => "interrupted backup",
        Op::Delete { .. } => "delete",
        Op::Gc => "gc",
    }
}

/// Scale probes (see probes.rs).
fn enumerate(_tier: Tier, idx: u32, of: u32, cx: &mut Cx) -> CaseResult {
    if !crate::probes::mine(idx, of) {
        return Ok(());
    }
    // names that are not valid UTF-8 beside ordinary ones (left out by conserve): whatever is
    // written must conform -- in particular no path twice
    {
        use crate::ops;
        let m = crate::probes::plain_meta();
        let mut t = Tree::empty_root(tree::Meta { mode: 0o755, ..m });
        t.0.insert("/notes".into(), tree::Node { kind: Kind::Dir, meta: tree::Meta { mode: 0o755, ..m } });
        for (name, pool, len) in [("/a", 2u8, 10u32), ("/notes/caf", 3, 20), ("/notes/z", 4, 30), ("/z", 5, 5)] {
            t.0.insert(name.into(), tree::Node { kind: Kind::File { pool, len }, meta: m });
        }
        for hunk in [1usize, 100] {
            let sub = cx.dir("undecodable-names");
            crate::engine::force_remove(&sub);
            std::fs::create_dir_all(&sub).unwrap();
            let (src, arch) = (sub.join("src"), sub.join("arch"));
            tree::materialise(&t, &src);
            tree::add_undecodable_twins(&t, &src, "/notes");
            tree::add_undecodable_twins(&t, &src, "/");
            ensure!(ops::create_archive(&arch).clean(), "C13/create", "probe");
            let b = ops::backup(&arch, &None, &src, Opts { hunk, block: 1000, cap: 100 }, &[]);
            ensure!(b.panic.is_none() && b.result.is_ok(), "C13/probe-undecodable-names/backup", "{}", b.describe());
            check_conformance(&format::scan(&arch), &BTreeMap::new(), false).map_err(|mut f| {
                f.signature = format!("{}/probe-undecodable-names", f.signature);
                f
            })?;
            crate::engine::force_remove(&sub);
            cx.add_evals(1);
            cx.inner_nontrivial += 1;
        }
    }
    for (name, (opts, tree)) in [
        ("many-hunks", crate::probes::many_hunks_tree(10_012)),
        ("big-blocks", crate::probes::big_blocks_tree()),
        ("over-default-hunk", crate::probes::over_default_hunk_tree()),
    ] {
        crate::engine::heartbeat();
        let t0 = std::time::Instant::now();
        let sub = cx.dir(name);
        std::fs::create_dir_all(&sub).unwrap();
        let mut cx2 = crate::engine::sub_cx(cx, sub.clone());
        let r = run(&Case::Single { opts, tree }, &mut cx2);
        crate::engine::force_remove(&sub);
        if std::env::var("VERIF_TIMING").is_ok() {
            eprintln!("C13 probe {name}: {:?}", t0.elapsed());
        }
        r.map_err(|mut f| {
            f.signature = format!("{}/probe-{name}", f.signature);
            f.inner = serde_json::json!({"probe": name});
            f
        })?;
        cx.add_evals(1);
        cx.inner_nontrivial += 1;
    }
    Ok(())
}

pub fn prop() -> Prop<Case> {
    Prop {
        id: "C13",
        level: "exploration",
        rule: "case = (options, tree) single backup or a history as in C02; after every mutating archive operation (backup, interrupted backup, delete, gc) the archive directory is read by the harness's own decoder (serde_json + snap + blake2) and checked: header, hunk names i/%05d/%09d numbered consecutively from 0 and non-empty, valid apaths strictly increasing within and across hunks under the reference order, tail hunk count == number of hunk files, blocks at d/<3 hex>/<128 hex> named by BLAKE2b-512 of their decompressed content, addresses inside their block, addresses only on files with lengths summing to the model's file size, target iff symlink. Non-trivial = some band with >=2 hunks and some block shared by >=2 entries; distinct by case hash; evaluations = archive states checked; plus two fixed scale probes (10 012 one-entry hunks; multi-MiB blocks). A tenth of the cases are of a third kind: while the backup runs, a later file of the directory being read is cut to a generated fraction of its length, extended, or replaced by a directory (so that reading it fails); the archive must conform all the same, every other entry's addresses must give exactly that file's bytes, and no other path may be missing from the version; since round 6 a third probe: 100 200 files of 256 bytes with default options (more entries than one default hunk takes, a combined block stored while the first hunk fills); since round 8 three single-backup cases of ten hold two files equal in every respect, written as hard links of one another, and a probe backs up a tree beside names that are not valid UTF-8 (twins differing in their invalid bytes)",
        assumptions: &[
            "zero-length files left by the torn-write variant of an interruption are counted and skipped (documented exception)",
            "the decoder reads the key 'len' in addresses (what conserve writes; doc/format.md calls it 'length')",
        ],
        cases: |t| t.pick(2400, 100_000),
        strategy,
        run,
        enumerate: Some(enumerate),
        exhaustive: |_| false,
        max_shrink_iters: 400,
    }
}
