//! C08 — listing a version follows the stitching rule and is strictly ordered.

use std::cmp::Ordering;
use std::path::Path;

use proptest::prelude::*;
use serde::{Deserialize, Serialize};
use serde_json::json;

use crate::engine::{CaseResult, Cx, Failure, Prop, Tier};
use crate::format::{self, ref_cmp};
use crate::ops::{self, Sel};
use crate::props::c15::Oracle;
use crate::tree;
use crate::{ensure, fail};

#[derive(Debug, Clone, PartialEq, Eq, Serialize, Deserialize)]
pub enum BandSpec {
    Absent,
    /// Directory exists, no BANDHEAD (what an interrupted creation or a half-finished
    /// removal leaves); `tail` says whether a BANDTAIL is lying in it.
    NoHead { tail: bool },
    /// Directory with a zero-length BANDHEAD (a backup killed while writing it).
    TornHead,
    Band {
        /// Indices into the universe, strictly increasing in reference order.
        entries: Vec<u16>,
        /// Sizes of consecutive hunks (sum <= entries.len(); the rest form a last hunk).
        /// A zero size is an empty `[]` hunk.
        hunks: Vec<u8>,
        /// Number of trailing hunk files that are not written.
        missing_tail_hunks: u8,
        closed: bool,
    },
}

#[derive(Debug, Clone, Serialize, Deserialize)]
pub struct Case {
    pub universe: Vec<String>,
    /// Band ids are `base` + the positions scaled by `stride` (gaps exist when stride > 1;
    /// base 9998 makes the ids cross from four to five digits).
    #[serde(default)]
    pub base: u32,
    pub stride: u32,
    pub bands: Vec<BandSpec>,
    pub subtrees: Vec<String>,
    pub excludes: Vec<Vec<String>>,
}

fn split_hunks(entries: &[u16], sizes: &[u8]) -> Vec<Vec<u16>> {
    let mut out = vec![];
    let mut i = 0usize;
    for s in sizes {
        let s = (*s as usize).min(entries.len() - i);
        out.push(entries[i..i + s].to_vec());
        i += s;
    }
    if i < entries.len() {
        out.push(entries[i..].to_vec());
    }
    out
}

fn write_case(root: &Path, case: &Case) {
    format::write_archive_header(root);
    let block = format::write_block(root, b"0123456789abcdef");
    for (pos, b) in case.bands.iter().enumerate() {
        let id = case.base + pos as u32 * case.stride;
        match b {
            BandSpec::Absent => {}
            BandSpec::NoHead { tail } => {
                format::write_band_dir(root, id);
                if *tail {
                    format::write_band_tail(root, id, 1);
                }
            }
            BandSpec::TornHead => {
                format::write_band_dir(root, id);
                std::fs::write(root.join(format::band_dirname(id)).join("BANDHEAD"), b"").unwrap();
            }
            BandSpec::Band { entries, hunks, missing_tail_hunks, closed } => {
                format::write_band_head(root, id);
                let layout = split_hunks(entries, hunks);
                let n_written = layout.len().saturating_sub(*missing_tail_hunks as usize);
                for (hn, h) in layout.iter().enumerate().take(n_written) {
                    let js: Vec<serde_json::Value> = h
                        .iter()
                        .map(|ei| {
                            let p = &case.universe[*ei as usize];
                            // mtime encodes (band, entry) so provenance is visible in the listing
                            let mtime = id as i64 * 10_000 + *ei as i64;
                            if *ei % 3 == 0 {
                                format::entry_json(p, "Dir", mtime, &[], None)
                            } else if *ei % 3 == 1 {
                                format::entry_json(p, "File", mtime, &[(block.clone(), (id % 5) as u64, 3)], None)
                            } else {
                                format::entry_json(p, "Symlink", mtime, &[], Some("t"))
                            }
                        })
                        .collect();
                    format::write_hunk(root, id, hn as u32, &js);
                }
                if *closed {
                    format::write_band_tail(root, id, layout.len() as u64);
                }
            }
        }
    }
}

fn check_case(case: &Case, cx: &mut Cx) -> Result<(u64, u64), Failure> {
    let root = cx.dir("arch");
    crate::engine::force_remove(&root);
    write_case(&root, case);
    let ra = format::scan(&root);
    let total_entries: usize = ra.bands.values().map(|b| b.all_entries().len()).sum();
    let mut evals = 0u64;
    let mut nontrivial = 0u64;
    let ids = ops::list_band_ids(&root, &None);
    ensure!(ids.clean(), "C08/list-bands", "{}", ids.describe());
    let want_ids: Vec<u32> = ra.bands.keys().copied().collect();
    ensure!(ids.result.as_ref().unwrap() == &want_ids, "C08/band-ids", "{:?} vs {want_ids:?}", ids.result);
    for (n, band) in &ra.bands {
        if !band.head.present_nonempty() {
            continue;
        }
        let reference = format::ref_listing(&ra, *n);
        // non-triviality: incomplete, an older band contributes, and the resume point falls
        // strictly inside one of its hunks (or a head-less/absent slot lies in between)
        let own = band.all_entries().len();
        let mut straddle = false;
        if !band.is_closed() && reference.len() > own {
            let (first_cont, prov) = &reference[own];
            if let Some(h) = ra.bands[&prov.band].hunks.iter().find(|h| h.relpath == prov.hunk_relpath) {
                if let Ok(es) = &h.entries {
                    straddle = es.first().map(|e| e.apath != first_cont.apath).unwrap_or(false);
                }
            }
            if prov.band + case.stride < *n {
                straddle = true;
            }
        }
        for (si, subtree) in case.subtrees.iter().enumerate() {
            let excl = &case.excludes[si % case.excludes.len().max(1)];
            let oracle = Oracle::new(excl);
            let want: Vec<&format::RawEntry> = reference
                .iter()
                .map(|(e, _)| e)
                .filter(|e| tree::under(subtree, &e.apath))
                .filter(|e| !oracle.excluded(&e.apath).0 && !(e.apath == "/" && false))
                .collect();
            let l = ops::list_entries(&root, &None, &Sel::Band(*n), subtree, excl, total_entries + 5);
            evals += 1;
            if straddle {
                nontrivial += 1;
            }
            ensure!(l.panic.is_none() && l.result.is_ok(), "C08/listing-failed", "band {n} subtree {subtree:?}: {}", l.describe());
            let got = l.result.unwrap();
            ensure!(
                got.len() <= total_entries,
                "C08/listing-longer-than-archive",
                "band {n}: listing yields more than the {total_entries} entries the archive holds (non-termination?)"
            );
            for w in got.windows(2) {
                ensure!(
                    ref_cmp(&w[0].apath, &w[1].apath) == Ordering::Less,
                    "C08/listing-not-strictly-increasing",
                    "band {n} subtree {subtree:?}: {:?} is followed by {:?}",
                    w[0].apath,
                    w[1].apath
                );
            }
            let gp: Vec<String> = got.iter().map(|e| format!("{}@{}", e.apath, e.mtime)).collect();
            let wp: Vec<String> = want.iter().map(|e| format!("{}@{}", e.apath, e.mtime)).collect();
            if gp != wp {
                let class = if band.is_closed() {
                    "complete"
                } else if straddle {
                    "incomplete-straddling"
                } else {
                    "incomplete"
                };
                fail!(
                    format!("C08/listing-differs-from-stitching-rule/{class}"),
                    "band {n} subtree {subtree:?} exclude {excl:?}: got {gp:?}, the stitching rule gives {wp:?} (path@mtime, mtime = band*10000+entry)"
                );
            }
            for (g, w) in got.iter().zip(want.iter()) {
                ensure!(ops::entry_matches(g, w), "C08/entry-modified", "band {n}: {g:?} vs {w:?}");
            }
        }
    }
    Ok((evals, nontrivial))
}

fn run(case: &Case, cx: &mut Cx) -> CaseResult {
    let (evals, nontrivial) = check_case(case, cx)?;
    cx.add_evals(evals);
    cx.nontrivial = nontrivial > 0;
    cx.label_if(nontrivial > 0, "straddling-resume");
    cx.label_if(case.stride > 1, "gaps-in-ids");
    cx.label_if(case.universe.len() >= 100, "wide:100+paths");
    cx.label_if(
        case.bands.iter().any(|b| matches!(b, BandSpec::Band { hunks, .. } if hunks.len() >= 256)),
        "band-of-256+hunks",
    );
    cx.label_if(case.bands.iter().any(|b| matches!(b, BandSpec::NoHead { .. })), "headless-dir");
    cx.label_if(case.bands.iter().any(|b| matches!(b, BandSpec::TornHead)), "torn-head");
    cx.label_if(
        case.bands.iter().any(|b| matches!(b, BandSpec::Band { missing_tail_hunks, .. } if *missing_tail_hunks > 0)),
        "missing-trailing-hunks",
    );
    cx.label_if(
        case.bands.iter().any(|b| matches!(b, BandSpec::Band { hunks, .. } if hunks.contains(&0))),
        "empty-hunk",
    );
    Ok(())
}

// ---- exhaustive small space

fn band_states(universe_len: usize) -> Vec<BandSpec> {
    let mut out = vec![BandSpec::Absent, BandSpec::NoHead { tail: false }, BandSpec::NoHead { tail: true }, BandSpec::TornHead];
    for closed in [false, true] {
        out.push(BandSpec::Band { entries: vec![], hunks: vec![], missing_tail_hunks: 0, closed });
    }
    for mask in 1u32..(1 << universe_len) {
        let entries: Vec<u16> = (0..universe_len as u16).filter(|i| mask & (1 << i) != 0).collect();
        for split in 0..entries.len() {
            // split == 0: one hunk; otherwise two hunks, the first of size `split`
            let hunks = if split == 0 { vec![] } else { vec![split as u8] };
            for closed in [false, true] {
                out.push(BandSpec::Band { entries: entries.clone(), hunks: hunks.clone(), missing_tail_hunks: 0, closed });
            }
        }
    }
    out
}

/// Scale probe: an interrupted band with 10 003 one-entry hunks (two index sub-directories)
/// over a complete band holding all 10 010 entries in one hunk.
fn probe_many_hunks(cx: &mut Cx) -> CaseResult {
    let root = cx.dir("many-hunks");
    crate::engine::force_remove(&root);
    format::write_archive_header(&root);
    let paths: Vec<String> = (0..10_010).map(|i| format!("/f{i:05}")).collect();
    format::write_band_head(&root, 0);
    let all: Vec<serde_json::Value> = paths.iter().enumerate().map(|(i, p)| format::entry_json(p, "Dir", i as i64, &[], None)).collect();
    format::write_hunk(&root, 0, 0, &all);
    format::write_band_tail(&root, 0, 1);
    format::write_band_head(&root, 1);
    for (i, p) in paths.iter().enumerate().take(10_003) {
        format::write_hunk(&root, 1, i as u32, &[format::entry_json(p, "Dir", 1_000_000 + i as i64, &[], None)]);
    }
    let ra = format::scan(&root);
    let reference = format::ref_listing(&ra, 1);
    ensure!(reference.len() == 10_010, "C08/harness/probe", "reference has {} entries", reference.len());
    let l = ops::list_entries(&root, &None, &Sel::Band(1), "/", &[], 20_000);
    ensure!(l.clean(), "C08/probe-many-hunks/listing-reported-errors", "{}", l.describe());
    let got = l.result.unwrap();
    let gp: Vec<(String, i64)> = got.iter().map(|e| (e.apath.to_string(), e.mtime)).collect();
    let wp: Vec<(String, i64)> = reference.iter().map(|(e, _)| (e.apath.clone(), e.mtime)).collect();
    if gp != wp {
        let i = gp.iter().zip(wp.iter()).position(|(a, b)| a != b).unwrap_or(gp.len().min(wp.len()));
        fail!(
            "C08/listing-differs-from-stitching-rule/probe-many-hunks",
            "listing of the 10 003-hunk interrupted band has {} entries, the rule gives {}; first difference at position {i}: got {:?}, want {:?}",
            gp.len(),
            wp.len(),
            gp.get(i),
            wp.get(i)
        );
    }
    crate::engine::force_remove(&root);
    cx.add_evals(1);
    cx.inner_nontrivial += 1;
    Ok(())
}

/// Scale probe: a complete band of 1400 hunks of three entries (and one of 2500 hunks of
/// two) below an interrupted band that stops at a path inside one of those hunks — at its
/// first, its middle and its last entry, early, in the middle and late in the index.
fn probe_long_multi_entry_index(cx: &mut Cx) -> CaseResult {
    // (the third configuration crosses into a second index sub-directory: 10 004 hunks, the
    // interrupted band ending in the last hunk of the first sub-directory and in the first
    // two of the second)
    for (per_hunk, n_hunks) in [(3usize, 1400usize), (2, 2500), (2, 10_004)] {
        let n = per_hunk * n_hunks;
        let paths: Vec<String> = (0..n).map(|i| format!("/f{i:05}")).collect();
        let stops = if n_hunks > 10_000 { vec![9_999usize, 10_000, 10_001] } else { vec![7usize, n_hunks / 2, n_hunks - 3] };
        for stop_hunk in stops {
            for within in 0..per_hunk {
                crate::engine::heartbeat();
                let root = cx.dir("long-multi");
                crate::engine::force_remove(&root);
                format::write_archive_header(&root);
                format::write_band_head(&root, 0);
                for h in 0..n_hunks {
                    let es: Vec<serde_json::Value> =
                        (h * per_hunk..(h + 1) * per_hunk).map(|i| format::entry_json(&paths[i], "Dir", i as i64, &[], None)).collect();
                    format::write_hunk(&root, 0, h as u32, &es);
                }
                format::write_band_tail(&root, 0, n_hunks as u64);
                // the interrupted band: everything up to and including its last path, in hunks
                // of seven entries (other boundaries than the older band's)
                let last = stop_hunk * per_hunk + within;
                format::write_band_head(&root, 1);
                for (hn, chunk) in (0..=last).collect::<Vec<_>>().chunks(7).enumerate() {
                    let es: Vec<serde_json::Value> = chunk.iter().map(|i| format::entry_json(&paths[*i], "Dir", 1_000_000 + *i as i64, &[], None)).collect();
                    format::write_hunk(&root, 1, hn as u32, &es);
                }
                let ra = format::scan(&root);
                let reference = format::ref_listing(&ra, 1);
                ensure!(reference.len() == n, "C08/harness/probe", "reference has {} entries", reference.len());
                let l = ops::list_entries(&root, &None, &Sel::Band(1), "/", &[], 2 * n);
                ensure!(l.clean(), "C08/probe-long-multi-entry-index/listing-reported-errors", "{}", l.describe());
                let gp: Vec<(String, i64)> = l.result.unwrap().iter().map(|e| (e.apath.to_string(), e.mtime)).collect();
                let wp: Vec<(String, i64)> = reference.iter().map(|(e, _)| (e.apath.clone(), e.mtime)).collect();
                if gp != wp {
                    let i = gp.iter().zip(wp.iter()).position(|(a, b)| a != b).unwrap_or(gp.len().min(wp.len()));
                    fail!(
                        "C08/listing-differs-from-stitching-rule/probe-long-multi-entry-index",
                        "older band of {n_hunks} hunks of {per_hunk}, interrupted band ending at {}: listing has {} entries, the rule gives {}; first difference at position {i}: got {:?}, want {:?}",
                        paths[last],
                        gp.len(),
                        wp.len(),
                        gp.get(i),
                        wp.get(i)
                    );
                }
                crate::engine::force_remove(&root);
                cx.add_evals(1);
                cx.inner_nontrivial += 1;
            }
        }
    }
    Ok(())
}

fn enumerate(tier: Tier, idx: u32, of: u32, cx: &mut Cx) -> CaseResult {
    if crate::probes::mine(idx, of) {
        probe_many_hunks(cx)?;
        probe_long_multi_entry_index(cx)?;
    }
    // universe in reference order; chosen to straddle the '/'-ordering subtleties
    let universe: Vec<String> = match tier {
        Tier::Quick => vec!["/a", "/a.b", "/a/b"],
        Tier::Thorough => vec!["/a", "/a.b", "/é", "/a/b"],
    }
    .into_iter()
    .map(String::from)
    .collect();
    let states = band_states(universe.len());
    let subtrees: Vec<String> = ["/", "/a", "/a.b"].iter().map(|s| s.to_string()).collect();
    let n = states.len();
    let mut evals = 0u64;
    let mut nontrivial = 0u64;
    let mut count = 0u64;
    for (i0, s0) in states.iter().enumerate() {
        if i0 as u32 % of != idx {
            continue;
        }
        for s1 in &states {
            for s2 in &states {
                let case = Case {
                    universe: universe.clone(),
                    base: 0,
                    stride: 1,
                    bands: vec![s0.clone(), s1.clone(), s2.clone()],
                    subtrees: subtrees.clone(),
                    excludes: vec![vec![]],
                };
                match check_case(&case, cx) {
                    Ok((e, nt)) => {
                        evals += e;
                        nontrivial += nt;
                    }
                    Err(f) => {
                        return Err(f.with_inner(json!({"case": case})));
                    }
                }
                count += 1;
            }
        }
    }
    let _ = (n, count);
    cx.add_evals(evals);
    cx.inner_nontrivial += nontrivial;
    Ok(())
}

// ---- random larger space

fn universe_strategy() -> BoxedStrategy<Vec<String>> {
    prop::collection::vec(
        prop::collection::vec(tree::name_strategy(), 1..4).prop_map(|v| format!("/{}", v.join("/"))),
        3..10,
    )
    .prop_map(|mut v| {
        v.push("/".to_string());
        v.sort_by(|a, b| ref_cmp(a, b));
        v.dedup();
        v
    })
    .boxed()
}

fn band_strategy() -> BoxedStrategy<(u8, Vec<bool>, Vec<u8>, u8, bool)> {
    (
        0u8..10,
        prop::collection::vec(prop::bool::weighted(0.6), 10),
        prop::collection::vec(prop_oneof![8 => 1u8..4, 1 => Just(0u8)], 0..4),
        prop_oneof![5 => Just(0u8), 1 => 1u8..3],
        any::<bool>(),
    )
        .boxed()
}

/// Wide cases: 100-250 paths, hunks of mostly one entry (so a band has a hundred or more
/// hunks), interrupted bands cut at a generated point: resume points that fall anywhere in
/// a long older index.
fn wide_strategy() -> BoxedStrategy<Case> {
    wide_strategy_of(100, 250, false)
}

/// Very wide cases: 600-1600 paths in hunks of mostly two to four entries, i.e. bands of
/// 200-700 hunks in which a resume point usually falls strictly inside a hunk.
fn very_wide_strategy() -> BoxedStrategy<Case> {
    wide_strategy_of(600, 1600, true)
}

fn wide_strategy_of(lo: usize, hi: usize, multi: bool) -> BoxedStrategy<Case> {
    let sizes = if multi {
        prop_oneof![1 => Just(1u8), 6 => 2u8..5, 1 => Just(0u8)].boxed()
    } else {
        prop_oneof![6 => Just(1u8), 2 => 2u8..4, 1 => Just(0u8)].boxed()
    };
    let band = (
        0u8..10,
        prop::collection::vec(prop::bool::weighted(0.85), 256),
        prop::collection::vec(sizes, if multi { 300..800 } else { 60..250 }),
        any::<u8>(),
        any::<bool>(),
    );
    (lo..hi, 2usize..8, prop::collection::vec(band, if multi { 2..=3 } else { 2..=4 }), prop::collection::vec(any::<u16>(), 0..2))
        .prop_map(move |(n, dirs, bands, subs)| {
            let mut universe: Vec<String> = vec!["/".to_string()];
            for d in 0..dirs {
                universe.push(format!("/d{d}"));
            }
            for i in 0..n {
                if i % 3 == 0 {
                    universe.push(format!("/f{i:03}"));
                } else {
                    universe.push(format!("/d{}/f{i:03}", i % dirs));
                }
            }
            universe.sort_by(|a, b| ref_cmp(a, b));
            if !multi {
                universe.truncate(255);
            }
            let len = universe.len();
            let bands = bands
                .into_iter()
                .map(|(kind, mask, hunks, cut, closed)| match kind {
                    0 if closed => BandSpec::TornHead,
                    0 => BandSpec::NoHead { tail: false },
                    _ => {
                        // an interrupted band holds a prefix of what it would have held
                        let limit = if closed { len } else { (cut as usize * (len + 1)) >> 8 };
                        let entries: Vec<u16> = (0..len as u16).filter(|i| (*i as usize) < limit && mask[*i as usize % mask.len()]).collect();
                        // no run of empty hunks after the last entry
                        let mut total = 0usize;
                        let hunks: Vec<u8> = hunks
                            .into_iter()
                            .take_while(|h| {
                                let go = total < entries.len();
                                total += *h as usize;
                                go
                            })
                            .collect();
                        BandSpec::Band { entries, hunks, missing_tail_hunks: 0, closed }
                    }
                })
                .collect();
            let mut subtrees = vec!["/".to_string()];
            for s in subs {
                subtrees.push(universe[(s as usize * len) >> 16].clone());
            }
            Case { universe, base: 0, stride: 1, bands, subtrees, excludes: vec![vec![]] }
        })
        .boxed()
}

fn strategy(_tier: Tier) -> BoxedStrategy<Case> {
    prop_oneof![90 => small_strategy(), 10 => wide_strategy(), 1 => very_wide_strategy()].boxed()
}

fn small_strategy() -> BoxedStrategy<Case> {
    (
        universe_strategy(),
        prop_oneof![6 => Just(1u32), 2 => 2u32..4, 1 => Just(17u32), 1 => 20u32..60],
        prop_oneof![4 => Just(0u32), 1 => Just(9998u32)],
        prop::collection::vec(band_strategy(), 1..=5),
        prop::collection::vec(any::<u16>(), 1..4),
        prop::collection::vec(
            prop::collection::vec(prop::sample::select(vec!["a", "/a", "a*", "*.b", "é", "**/b", "/*/a"]).prop_map(String::from), 0..2),
            1..3,
        ),
    )
        .prop_map(|(universe, stride, base, bands, subs, excludes)| {
            let bands = bands
                .into_iter()
                .map(|(kind, mask, hunks, missing, closed)| match kind {
                    0 => BandSpec::Absent,
                    1 if mask[0] && mask[1] => BandSpec::TornHead,
                    1 => BandSpec::NoHead { tail: closed },
                    _ => BandSpec::Band {
                        entries: (0..universe.len() as u16).filter(|i| mask[*i as usize % mask.len()]).collect(),
                        hunks,
                        missing_tail_hunks: missing,
                        closed,
                    },
                })
                .collect();
            let mut subtrees = vec!["/".to_string()];
            for s in subs {
                let i = (s as usize * (universe.len() + 1)) >> 16;
                subtrees.push(universe.get(i).cloned().unwrap_or_else(|| "/no/such".to_string()));
            }
            Case { universe, base, stride, bands, subtrees, excludes }
        })
        .boxed()
}

pub fn prop() -> Prop<Case> {
    Prop {
        id: "C08",
        level: "exploration",
        rule: "archives are written directly by the harness in the documented format. Enumeration: every arrangement of 3 band slots, each in {absent, directory without head (with or without a stray tail), directory with a zero-length head, head(+tail) without hunks, head + any non-empty sorted subset of the universe split into 1 or 2 hunks, with or without tail} over the universe {/a, /a.b, /a/b} (quick; thorough adds /é), listed for every N that has a head and subtree in {/, /a, /a.b}. Generated: up to 5 slots with id gaps of 1-59 and ids crossing b9999/b10000, universes of 4-10 generated paths, up to 5 hunks per band incl. empty [] hunks and missing trailing hunks, subtree from the universe or absent, exclude sets. One fixed scale probe: an interrupted band of 10 003 one-entry hunks over a complete one. Oracle: Archive::iter_entries == reference stitcher (own entries, then nearest earlier band with a head after the last path taken, until a closed band) filtered by containment and the exclude rule, entry-for-entry with provenance encoded in mtime; strictly increasing under the reference order; never longer than the archive's entry count (termination). Non-trivial = N incomplete, an older band continues it, and the resume point falls strictly inside a hunk of the older band or skips over an absent/head-less slot; enumerated listings distinct by construction, generated by case hash; since round 6 one generated case in a hundred is very wide: 600-1600 paths, bands of 200-700 hunks of mostly two to four entries; since round 7 a second probe: an interrupted band ending at the first, middle and last entry of a hunk early, midway and late in a complete band of 1400 three-entry hunks and of 2500 two-entry hunks; since round 8 the probe's third configuration has 10 004 two-entry hunks (a second index sub-directory), the interrupted band ending in hunks 9 999, 10 000 and 10 001",
        assumptions: &[
            "head-less directories are not 'existing versions' (the stitcher skips them)",
            "reference stitcher and containment/exclude oracles are the harness's own",
        ],
        cases: |t| t.pick(5000, 300_000),
        strategy,
        run,
        enumerate: Some(enumerate),
        exhaustive: |_| false,
        max_shrink_iters: 400,
    }
}
