//! C02 — every completed version keeps restoring to its own snapshot.

use proptest::prelude::*;

use crate::engine::{CaseResult, Cx, Failure, Prop, Tier};
use crate::history::{BandState, HistCfg, History, Op, StepKind, World, history_strategy};
use crate::ops::{self, Sel};
use crate::tree::{self, CmpOpts, TreeCfg};
use crate::{ensure, fail};

pub fn hist_cfg(tier: Tier) -> HistCfg {
    HistCfg {
        tree: TreeCfg {
            max_depth: 3,
            max_children: 4,
            max_len: 3000,
            ..TreeCfg::full()
        },
        max_ops: tier.pick(14, 30),
        interrupts: true,
        deletes: true,
    }
}

fn strategy(tier: Tier) -> BoxedStrategy<History> {
    history_strategy(hist_cfg(tier))
}

/// Restore band `sel` and compare with `want`.
pub fn check_restore(
    w: &World,
    cx: &Cx,
    sel: &Sel,
    want: &tree::Tree,
    step: usize,
    sig: &str,
    n: &mut u32,
) -> CaseResult {
    *n += 1;
    let dest = cx.dir("r").join(format!("d{n}"));
    std::fs::create_dir_all(cx.dir("r")).unwrap();
    let r = ops::restore(&w.arch, &None, &dest, sel, None, &[], false);
    if !r.clean() {
        return Err(Failure::new(
            format!("{sig}/restore-error"),
            format!("after step {step}: restore {sel:?} reported: {}", r.describe()),
        ));
    }
    let got = tree::snapshot(&dest);
    let res = match tree::first_diff(&tree::expected(want), &got, CmpOpts::restore()) {
        Some((field, msg)) if cx.replay => {
            // debugging aid: show what every band records for the offending path
            let path = msg.split(':').next().unwrap_or("").to_string();
            let ra = crate::format::scan(&w.arch);
            for (id, b) in &ra.bands {
                for e in b.all_entries() {
                    if e.apath == path {
                        eprintln!("   band {id}: {}", e.raw);
                    }
                }
            }
            if let Some(n) = want.0.get(&path) {
                eprintln!("   model wants: {n:?}");
            }
            Err(Failure::new(
                format!("{sig}/restore-diff/{field}"),
                format!("after step {step}: restore {sel:?}: {msg}"),
            ))
        }
        Some((field, msg)) => Err(Failure::new(
            format!("{sig}/restore-diff/{field}"),
            format!("after step {step}: restore {sel:?}: {msg}"),
        )),
        None => Ok(()),
    };
    crate::engine::force_remove(&dest);
    res
}

pub fn check_all_versions(w: &World, cx: &Cx, step: usize, n: &mut u32) -> CaseResult {
    let complete = w.complete_bands();
    for (id, t) in &complete {
        check_restore(w, cx, &Sel::Band(*id), t, step, "C02/version", n)?;
    }
    match complete.last() {
        Some((_, t)) => check_restore(w, cx, &Sel::LatestClosed, t, step, "C02/latest", n)?,
        None => {
            *n += 1;
            let dest = cx.dir("r").join(format!("d{n}"));
            std::fs::create_dir_all(cx.dir("r")).unwrap();
            let r = ops::restore(&w.arch, &None, &dest, &Sel::LatestClosed, None, &[], false);
            ensure!(
                r.panic.is_none() && r.result.is_err(),
                "C02/latest/none-complete",
                "after step {step}: no complete version exists but restore(latest) gave {}",
                r.describe()
            );
        }
    }
    Ok(())
}

pub fn step_summary(s: &StepKind) -> String {
    match s {
        StepKind::Mutated => "mutated".into(),
        StepKind::Backup { report, interrupted, new_band, .. } => format!(
            "backup interrupted={interrupted} new_band={new_band:?} {}",
            report.describe()
        ),
        StepKind::Delete { report, requested, dry_run, .. } => {
            format!("delete {requested:?} dry_run={dry_run} {}", report.describe())
        }
    }
}

fn run(h: &History, cx: &mut Cx) -> CaseResult {
    let mut w = World::for_history(&cx.scratch, h);
    let mut n = 0u32;
    let mut completed_backups = 0;
    let mut mutated_between = false;
    let mut saw_mutation_since_backup = false;
    let (mut f_resumed, mut f_del_middle, mut f_gc, mut f_swap) = (false, false, false, false);
    let mut last_was_interrupted = false;
    for (i, op) in h.ops.iter().enumerate() {
        if let Op::Mutate(es) = op {
            saw_mutation_since_backup = true;
            if es.iter().any(|e| matches!(e, crate::history::Edit::SwapKind { .. })) {
                f_swap = true;
            }
        }
        let bands_before: Vec<u32> = w.bands.keys().copied().collect();
        let step = w.apply(op);
        if cx.replay {
            eprintln!("step {i}: {op:?}\n   -> {}", step_summary(&step));
            if let Ok(watch) = std::env::var("VERIF_WATCH") {
                eprintln!("   model {watch}: {:?}", w.tree.0.get(&watch));
                eprintln!("   disk  {watch}: {:?}", std::fs::symlink_metadata(tree::fs_path(&w.src, &watch)).map(|m| {
                    use std::os::unix::fs::MetadataExt;
                    (m.len(), m.mtime(), m.mtime_nsec())
                }));
            }
        }
        match &step {
            StepKind::Mutated => {}
            StepKind::Backup { report, interrupted, new_band, .. } => {
                if let Some(p) = &report.panic {
                    fail!(format!("C02/backup-panic@{}", ops::panic_site(p)), "step {i}: backup panicked: {p}");
                }
                if !*interrupted {
                    ensure!(
                        report.result.is_ok(),
                        "C02/backup-failed",
                        "step {i}: uninterrupted backup failed: {}",
                        report.describe()
                    );
                    let nb = new_band.ok_or_else(|| Failure::new("C02/no-new-band", format!("step {i}")))?;
                    ensure!(
                        matches!(w.bands.get(&nb), Some(BandState::Complete(_))),
                        "C02/backup-not-complete",
                        "step {i}: backup returned Ok but band {nb} has no tail"
                    );
                    completed_backups += 1;
                    if completed_backups >= 2 && saw_mutation_since_backup {
                        mutated_between = true;
                    }
                    if last_was_interrupted {
                        f_resumed = true;
                    }
                    saw_mutation_since_backup = false;
                    last_was_interrupted = false;
                } else {
                    last_was_interrupted = true;
                    cx.label("interrupted-backup");
                }
            }
            StepKind::Delete { report, requested, dry_run, .. } => {
                if let Some(p) = &report.panic {
                    fail!(format!("C02/delete-panic@{}", ops::panic_site(p)), "step {i}: delete panicked: {p}");
                }
                if report.is_ok() && !dry_run {
                    if requested.is_empty() {
                        f_gc = true;
                    }
                    if requested.iter().any(|r| {
                        bands_before.iter().any(|b| b < r) && bands_before.iter().any(|b| b > r)
                    }) {
                        f_del_middle = true;
                    }
                }
            }
        }
        check_all_versions(&w, cx, i, &mut n)?;
    }
    cx.add_evals(n as u64);
    cx.label_if(f_resumed, "interrupted-then-resumed");
    cx.label_if(f_del_middle, "delete-middle");
    cx.label_if(f_gc, "gc");
    cx.label_if(f_swap, "kind-swap");
    cx.label_if(completed_backups >= 2, "2+backups");
    cx.nontrivial = completed_backups >= 2 && mutated_between && (f_resumed || f_del_middle || f_gc || f_swap);
    Ok(())
}

/// Calls `action` once, just before the `k`-th write under `d/` (0-based).
struct AtBlockWrite {
    k: usize,
    seen: std::sync::atomic::AtomicUsize,
    action: std::sync::Mutex<Option<Box<dyn FnOnce() + Send>>>,
}

impl conserve::transport::verif::Interceptor for AtBlockWrite {
    fn before(&self, call: &conserve::transport::verif::Call<'_>) -> conserve::transport::verif::Action {
        if call.verb == conserve::transport::record::Verb::Write && call.path.starts_with("d/") {
            let n = self.seen.fetch_add(1, std::sync::atomic::Ordering::SeqCst);
            if n == self.k {
                if let Some(f) = self.action.lock().unwrap().take() {
                    f();
                }
            }
        }
        conserve::transport::verif::Action::Proceed
    }
}

/// A file rewritten in place (same length, other content, later mtime) at every possible
/// block write of a backup; then the source rests and a second backup is made. The first
/// version may hold the old or the new file (or a mixture: it was written to while read);
/// the second one, made from a source at rest, must restore to exactly that source, and so
/// must "latest". Every other file of the first version restores exactly as well.
fn rewritten_during_backup(cx: &mut Cx) -> CaseResult {
    use crate::tree::{Kind, Meta, Node, Tree};
    let m = crate::probes::plain_meta();
    let mut t = Tree::empty_root(Meta { mode: 0o755, ..m });
    for (name, pool, len) in [("a-small", 2u8, 40u32), ("big", 3, 4500), ("c-small", 4, 60), ("m-big", 5, 2000), ("z-small", 6, 10)] {
        t.0.insert(format!("/{name}"), Node { kind: Kind::File { pool, len }, meta: m });
    }
    let o = ops::Opts { hunk: 3, block: 1000, cap: 100 };
    let mut evals = 0u64;
    for victim in ["/big", "/m-big"] {
        for k in 0..9usize {
            crate::engine::heartbeat();
            let sub = cx.dir("rewrite");
            crate::engine::force_remove(&sub);
            std::fs::create_dir_all(sub.join("r")).unwrap();
            let src = sub.join("src");
            let arch = sub.join("arch");
            tree::materialise(&t, &src);
            ensure!(ops::create_archive(&arch).clean(), "C02/create", "probe");
            let mut t2 = t.clone();
            let (len, new_pool) = match &t.0[victim].kind {
                Kind::File { pool, len } => (*len, pool + 2),
                _ => unreachable!(),
            };
            t2.0.get_mut(victim).unwrap().kind = Kind::File { pool: new_pool, len };
            t2.0.get_mut(victim).unwrap().meta.mtime_s += 10;
            let fp = tree::fs_path(&src, victim);
            let bytes = tree::content_bytes(new_pool, len);
            let mt = t2.0[victim].meta.mtime_s;
            let root = src.clone();
            let root_meta = t.0["/"].meta;
            let hook: ops::Hook = Some(std::sync::Arc::new(AtBlockWrite {
                k,
                seen: Default::default(),
                action: std::sync::Mutex::new(Some(Box::new(move || {
                    use std::io::{Seek, Write};
                    let mut f = std::fs::OpenOptions::new().write(true).open(&fp).unwrap();
                    f.seek(std::io::SeekFrom::Start(0)).unwrap();
                    f.write_all(&bytes).unwrap();
                    drop(f);
                    tree::set_mtime(&fp, mt, 0);
                    tree::set_mtime(&root, root_meta.mtime_s, root_meta.mtime_ns);
                }))),
            }));
            let b1 = ops::backup(&arch, &hook, &src, o, &[]);
            ensure!(b1.panic.is_none() && b1.result.is_ok(), "C02/probe-rewritten-during-backup/backup", "{}", b1.describe());
            let b2 = ops::backup(&arch, &None, &src, o, &[]);
            ensure!(!ops::backup_reported_error(&b2), "C02/probe-rewritten-during-backup/backup", "second: {}", b2.describe());
            // the source at rest is t2 if the rewrite happened (k within the backup's writes), else t
            let now = tree::snapshot(&src);
            for (sel, what) in [(Sel::Band(1), "version"), (Sel::LatestClosed, "latest")] {
                let dest = sub.join("r").join(what);
                let r = ops::restore(&arch, &None, &dest, &sel, None, &[], false);
                ensure!(r.clean(), format!("C02/{what}/restore-error/probe-rewritten-during-backup"), "{victim} rewritten at block write {k}: {}", r.describe());
                if let Some((field, msg)) = tree::first_diff(&now, &tree::snapshot(&dest), CmpOpts::restore()) {
                    fail!(
                        format!("C02/{what}/restore-diff/{field}/probe-rewritten-during-backup"),
                        "{victim} was rewritten in place (same length, later mtime) at block write {k} of the first backup; the second backup was made from the source at rest and does not restore to it: {msg}"
                    );
                }
            }
            // the first version: everything but the rewritten file exactly
            let dest = sub.join("r").join("first");
            let r = ops::restore(&arch, &None, &dest, &Sel::Band(0), None, &[], false);
            ensure!(r.panic.is_none() && r.result.is_ok(), "C02/probe-rewritten-during-backup/restore-first", "{}", r.describe());
            let mut want = tree::expected(&t);
            let mut got = tree::snapshot(&dest);
            want.remove(victim);
            got.remove(victim);
            if let Some((field, msg)) = tree::first_diff(&want, &got, CmpOpts::restore()) {
                fail!(format!("C02/version/restore-diff/{field}/probe-rewritten-during-backup/other-file"), "{victim} rewritten at block write {k}: {msg}");
            }
            evals += 1;
            crate::engine::force_remove(&sub);
        }
    }
    cx.add_evals(evals);
    cx.inner_nontrivial += 1;
    Ok(())
}

/// Scale probe (see probes.rs): two versions of a 10 012-file tree written with one entry
/// per index hunk (a second index sub-directory); both must keep restoring exactly.
fn enumerate(_tier: Tier, idx: u32, of: u32, cx: &mut Cx) -> CaseResult {
    if !crate::probes::mine(idx, of) {
        return Ok(());
    }
    rewritten_during_backup(cx)?;
    let (opts, tree) = crate::probes::many_hunks_tree(10_012);
    let sub = cx.dir("many-hunks");
    std::fs::create_dir_all(sub.join("r")).unwrap();
    let mut cx2 = crate::engine::sub_cx(cx, sub.clone());
    let mut w = World::new(&sub, &tree);
    let mut n = 0u32;
    let s1 = w.apply(&Op::Backup(opts));
    ensure!(matches!(&s1, StepKind::Backup { report, .. } if report.clean()), "C02/probe-many-hunks/backup", "{}", step_summary(&s1));
    crate::engine::heartbeat();
    let edit = crate::history::Edit::Modify { idx: 40_000, pool: 1, dlen: 1, mtime_s: 1_600_000_000, mtime_ns: 7 };
    let _ = w.apply(&Op::Mutate(vec![edit, crate::history::Edit::Remove { idx: 65_000 }]));
    let s2 = w.apply(&Op::Backup(opts));
    ensure!(matches!(&s2, StepKind::Backup { report, .. } if report.clean()), "C02/probe-many-hunks/backup", "{}", step_summary(&s2));
    crate::engine::heartbeat();
    cx2.scratch = sub.clone();
    check_all_versions(&w, &cx2, 2, &mut n).map_err(|mut f| {
        f.signature = format!("{}/probe-many-hunks", f.signature);
        f
    })?;
    crate::engine::force_remove(&sub);
    cx.add_evals(n as u64);
    cx.inner_nontrivial += 1;

    // Blocks of 40 MiB and 33 MiB + 1 (64 MiB block size): the second version carries them
    // over from the first; both keep restoring.
    // ... and a tree whose single index hunk exceeds 32 MiB (10 000 files with 3.3 KB paths)
    // ... and a block size of 1 500 000 bytes
    for (name, (opts, tree)) in [
        ("huge-blocks", crate::probes::huge_block_tree()),
        ("big-hunk", crate::probes::big_hunk_tree()),
        ("odd-block-size", crate::probes::odd_block_size_tree()),
    ] {
        let sub = cx.dir(name);
        std::fs::create_dir_all(sub.join("r")).unwrap();
        let mut cx3 = crate::engine::sub_cx(cx, sub.clone());
        cx3.scratch = sub.clone();
        let mut w = World::new(&sub, &tree);
        let mut n = 0u32;
        for round in 0..2 {
            crate::engine::heartbeat();
            if round == 1 {
                let _ = w.apply(&Op::Mutate(vec![crate::history::Edit::Nudge { idx: 40_000, pool: 1, dns: 5 }]));
            }
            let s = w.apply(&Op::Backup(opts));
            ensure!(matches!(&s, StepKind::Backup { report, .. } if report.clean()), format!("C02/probe-{name}/backup"), "{}", step_summary(&s));
        }
        crate::engine::heartbeat();
        check_all_versions(&w, &cx3, 2, &mut n).map_err(|mut f| {
            f.signature = format!("{}/probe-{name}", f.signature);
            f
        })?;
        crate::engine::force_remove(&sub);
        cx.add_evals(n as u64);
        cx.inner_nontrivial += 1;
    }
    Ok(())
}

pub fn prop() -> Prop<History> {
    Prop {
        id: "C02",
        level: "exploration",
        rule: "case = history (initial tree + <=14 ops quick / <=30 thorough over mutate/backup(options)/backup interrupted before its k-th mutating storage op (optionally leaving an empty file)/delete(subset, dry-run)/gc), interpreted against a model that remembers the source tree of every completed version; after EVERY step every surviving complete version is restored by id and compared byte/metadata-exact with its snapshot, and restore(latest) must equal the newest (or fail iff none). Non-trivial = >=2 completed backups with a mutation between them and at least one of {interrupted-then-resumed, delete of a middle version, gc, file<->dir swap}; distinct by case hash; evaluations = restores compared; plus three fixed scale probes per run (two versions of a 10 012-file tree with one entry per index hunk; of a tree with single blocks of 40 MiB and 33 MiB+1 written with a 64 MiB block size; of 10 000 files with 3.3 KB paths, i.e. one index hunk of more than 32 MiB); since round 7 two more probes: the huge-block probe also with 1 500 000-byte blocks (files of several blocks, of exactly two, of one plus a byte), and a file rewritten in place (same length, later mtime) at every block write of a backup followed by a backup of the source at rest, which must restore to exactly that source (and 'latest' too), every other file of the first version restoring exactly; a tenth of the generated block sizes lie between 2 KiB and 200 KB; since round 9 the edit set can make a file vanish while a different file of the same name, length and mtime appears in another directory, and restores run under the file-creation masks 022, 077, 002, 027 in turn (all checks)",
        assumptions: &[
            "interruption = storage frozen at a transport-operation boundary (all later operations fail without touching the directory)",
            "content changes always change mtime or size (documented heuristic)",
        ],
        cases: |t| t.pick(600, 20_000),
        strategy,
        run,
        enumerate: Some(enumerate),
        exhaustive: |_| false,
        max_shrink_iters: 400,
    }
}
