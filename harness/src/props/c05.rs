//! C05 — deleting versions and collecting garbage never harm what is kept.

use std::collections::BTreeSet;

use proptest::prelude::*;
use serde::{Deserialize, Serialize};
use serde_json::json;

use crate::engine::{CaseResult, Cx, Prop, Tier};
use crate::format;
use crate::history::{BandState, HistCfg, History, World, history_strategy};
use crate::hooks::{Kind as EK, Plan, V};
use crate::ops::{self, Sel};
use crate::props::c02::check_restore;
use crate::scen::{self, copy_dir};
use crate::tree::TreeCfg;
use crate::{ensure, fail};

#[derive(Debug, Clone, Serialize, Deserialize)]
pub struct Case {
    pub hist: History,
    pub sel: Vec<u16>,
    pub dry_run: bool,
    /// Optionally one block file is missing before the delete runs (a damaged archive): the
    /// delete must still not remove anything the kept versions reference.
    #[serde(default)]
    pub missing_block: Option<u16>,
    /// The tails of the complete versions carry no `index_hunk_count`, as those written by
    /// conserve before 0.6.4 (the key is optional in the format; such archives are supported).
    #[serde(default)]
    pub legacy_tails: bool,
}

fn strategy(_tier: Tier) -> BoxedStrategy<Case> {
    let cfg = HistCfg {
        tree: TreeCfg {
            max_children: 4,
            ..scen::small_cfg()
        },
        max_ops: 8,
        interrupts: true,
        deletes: false,
    };
    (
        history_strategy(cfg),
        prop::collection::vec(any::<u16>(), 0..4),
        prop::bool::weighted(0.2),
        prop::option::weighted(0.3, any::<u16>()),
        prop::bool::weighted(0.2),
    )
        .prop_map(|(hist, sel, dry_run, missing_block, legacy_tails)| Case { hist, sel, dry_run, missing_block, legacy_tails })
        .boxed()
}

struct St<'a> {
    w: &'a World,
    pristine: std::path::PathBuf,
    requested: Vec<u32>,
}

impl St<'_> {
    fn reset(&self) {
        crate::engine::force_remove(&self.w.arch);
        copy_dir(&self.pristine, &self.w.arch);
    }

    /// Every complete version whose directory still exists restores exactly.
    fn kept_versions_restore(&self, cx: &Cx, sig: &str, n: &mut u32) -> CaseResult {
        let post = format::scan(&self.w.arch);
        for (id, t) in self.w.complete_bands() {
            if post.bands.get(&id).map(|b| b.tail.present_nonempty()).unwrap_or(false) {
                check_restore(self.w, cx, &Sel::Band(id), t, 0, sig, n)?;
            }
        }
        Ok(())
    }
}

fn run(case: &Case, cx: &mut Cx) -> CaseResult {
    let t_case = std::time::Instant::now();
    let r = run_inner(case, cx);
    if std::env::var("VERIF_TIMING").is_ok() && t_case.elapsed().as_secs() >= 2 {
        eprintln!("C05 slow case: {:?} ops={} first={} missing_block={:?} evals={}", t_case.elapsed(), case.hist.ops.len(), case.hist.first_band_id, case.missing_block, cx.evals);
    }
    r
}

fn run_inner(case: &Case, cx: &mut Cx) -> CaseResult {
    let mut w = World::for_history(&cx.scratch, &case.hist);
    std::fs::create_dir_all(cx.dir("r")).unwrap();
    for op in &case.hist.ops {
        let _ = w.apply(op);
    }
    let ids: Vec<u32> = w.bands.keys().copied().collect();
    let mut requested: Vec<u32> = case
        .sel
        .iter()
        .filter(|_| !ids.is_empty())
        .map(|i| ids[(*i as usize * ids.len()) >> 16])
        .collect();
    requested.sort();
    requested.dedup();
    // the order in which the versions are named is the caller's: ascending, descending, rotated
    match case.sel.first().map(|x| x % 3) {
        Some(1) => requested.reverse(),
        Some(2) if requested.len() > 1 => requested.rotate_left(1),
        _ => {}
    }
    if case.legacy_tails {
        for id in w.bands.keys() {
            let p = w.arch.join(format::band_dirname(*id)).join("BANDTAIL");
            if let Ok(bytes) = std::fs::read(&p) {
                if let Ok(serde_json::Value::Object(mut m)) = serde_json::from_slice::<serde_json::Value>(&bytes) {
                    m.remove("index_hunk_count");
                    std::fs::write(&p, serde_json::to_vec(&serde_json::Value::Object(m)).unwrap()).unwrap();
                }
            }
        }
        cx.label("tails-without-hunk-count");
    }
    cx.label_if(requested.windows(2).any(|w| w[0] > w[1]), "versions-named-out-of-order");
    if let Some(frac) = case.missing_block {
        return run_with_missing_block(&w, &requested, frac, cx);
    }
    let pristine = cx.dir("pristine");
    copy_dir(&w.arch, &pristine);
    let st = St { w: &w, pristine, requested: requested.clone() };
    let pre = format::scan(&w.arch);
    let before_raw = format::raw_tree(&w.arch);
    let mut n = 0u32;
    let mut evals = 0u64;

    // --- the fault-free run
    let base_ctl = crate::hooks::Ctl::new(&w.arch, Plan::None);
    let hook: ops::Hook = Some(base_ctl.clone() as std::sync::Arc<dyn conserve::transport::verif::Interceptor>);
    let r = ops::delete_bands(&w.arch, &hook, &requested, case.dry_run, false);
    if let Some(p) = &r.panic {
        fail!(format!("C05/delete-panic@{}", ops::panic_site(p)), "{p}");
    }
    let trace = base_ctl.log();
    let post = format::scan(&w.arch);
    let after_raw = format::raw_tree(&w.arch);
    evals += 1;
    let kept_ids: Vec<u32> = ids.iter().copied().filter(|i| !requested.contains(i)).collect();
    let mut shared_block = false;
    if case.dry_run || r.result.is_err() {
        let what = if case.dry_run { "dry-run" } else { "refused-delete" };
        ensure!(
            before_raw == after_raw,
            format!("C05/{what}-changed-archive"),
            "{what} of {requested:?} ({}) changed the archive directory: {:?}",
            r.describe(),
            before_raw
                .keys()
                .chain(after_raw.keys())
                .find(|k| before_raw.get(*k) != after_raw.get(*k))
        );
    } else {
        let got_ids: Vec<u32> = post.bands.keys().copied().collect();
        ensure!(
            got_ids == kept_ids,
            "C05/wrong-versions-removed",
            "deleted {requested:?} from {ids:?}: versions now {got_ids:?}"
        );
        let referenced = post.referenced_hashes(kept_ids.iter().copied());
        let present: BTreeSet<String> = post.blocks.iter().filter(|(_, b)| b.file_len > 0).map(|(h, _)| h.clone()).collect();
        if let Some(h) = referenced.iter().find(|h| !present.contains(*h)) {
            fail!("C05/referenced-block-removed", "block {} is referenced by a kept version but is gone", &h[..12]);
        }
        if let Some(h) = present.iter().find(|h| !referenced.contains(*h)) {
            fail!("C05/unreferenced-block-remains", "block {} is referenced by no remaining version but is still present", &h[..12]);
        }
        let stats = r.result.as_ref().unwrap();
        let removed_blocks = pre.blocks.iter().filter(|(h, b)| b.file_len > 0 && !post.blocks.contains_key(*h)).count();
        ensure!(
            stats.deleted_band_count == requested.len() && stats.deleted_block_count == removed_blocks,
            "C05/stats-disagree",
            "stats say {} bands / {} blocks deleted; the directory lost {} / {}",
            stats.deleted_band_count,
            stats.deleted_block_count,
            requested.len(),
            removed_blocks
        );
        let ref_deleted = pre.referenced_hashes(requested.iter().copied());
        shared_block = ref_deleted.iter().any(|h| referenced.contains(h));
    }
    st.kept_versions_restore(cx, "C05/kept-version", &mut n)?;

    // --- crash points and read faults of the real delete
    let mut nontrivial_inner = 0u64;
    if !case.dry_run && r.result.is_ok() {
        let only = cx.only_inner.clone();
        // (an interrupted version above four-digit ids: stitching walks back one id at a time,
        // ten thousand operations per restore; such archives get fewer inner values in quick)
        // (likewise archives of hundreds of block files, which tiny block sizes produce:
        // every inner value copies the archive and restores every kept version)
        let costly = cx.tier == Tier::Quick
            && ((pre.bands.keys().next().map_or(false, |m| *m >= 1000) && pre.bands.values().any(|b| !b.is_closed())) || before_raw.len() > 500);
        let mut points = scen::crash_points(&trace);
        if cx.tier == Tier::Quick {
            points = scen::thin(&points, if costly { 5 } else { 40 });
        }
        for (key, _torn) in points.into_iter().filter(|(_, t)| !*t) {
            let inner = json!({"crash": key});
            if only.as_ref().map_or(false, |o| *o != inner) {
                continue;
            }
            crate::engine::heartbeat();
            st.reset();
            let ctl = crate::hooks::Ctl::new(&w.arch, Plan::FreezeAtKey { key: key.clone(), torn: false });
            let hook: ops::Hook = Some(ctl.clone() as std::sync::Arc<dyn conserve::transport::verif::Interceptor>);
            let rr = ops::delete_bands(&w.arch, &hook, &st.requested, false, false);
            evals += 1;
            nontrivial_inner += 1;
            let res: CaseResult = (|| {
                ensure!(rr.panic.is_none(), "C05/delete-panic-on-crash", "{}", rr.describe());
                st.kept_versions_restore(cx, "C05/after-crash/kept-version", &mut n)
            })();
            if let Err(f) = res {
                cx.inner_failure(f.with_inner(inner))?;
            }
        }
        let mut reads: Vec<_> = trace
            .iter()
            .filter(|l| matches!(l.key.verb, V::Read | V::ListDir | V::Metadata))
            .cloned()
            .collect();
        if cx.tier == Tier::Quick {
            reads = scen::thin(&reads, if costly { 5 } else { 40 });
        }
        // ... and failing removals / lock writes: a version directory that could not be
        // removed is still a version, and must keep its blocks
        let muts: Vec<_> = trace.iter().filter(|l| l.key.verb.mutating()).cloned().collect();
        reads.extend(scen::thin(&muts, if costly { 4 } else { cx.tier.pick(24, 80) }));
        for l in reads {
            for kind in [EK::Other, EK::NotFound, EK::PermissionDenied] {
                let inner = json!({"fault": l.key, "kind": kind});
                if only.as_ref().map_or(false, |o| *o != inner) {
                    continue;
                }
                crate::engine::heartbeat();
            st.reset();
                let ctl = crate::hooks::Ctl::new(&w.arch, Plan::FailAtKey { key: l.key.clone(), kind });
                let hook: ops::Hook = Some(ctl.clone() as std::sync::Arc<dyn conserve::transport::verif::Interceptor>);
                let rr = ops::delete_bands(&w.arch, &hook, &st.requested, false, false);
                evals += 1;
                let on_kept_index = l.key.path.contains("/i") && kept_ids.iter().any(|k| l.key.path.starts_with(&format::band_dirname(*k)));
                let on_removal = l.key.verb.mutating();
                if on_kept_index || on_removal {
                    nontrivial_inner += 1;
                }
                let res: CaseResult = (|| {
                    if let Some(p) = &rr.panic {
                        fail!(format!("C05/delete-panic-on-fault@{}", ops::panic_site(p)), "fault {:?} {kind:?}: {p}", l.key);
                    }
                    let class = if on_kept_index { "index-of-kept-band" } else { "other" };
                    let what = if on_removal { "failed-removal" } else { "read-fault" };
                    st.kept_versions_restore(cx, &format!("C05/after-{what}/{class}/kept-version"), &mut n)
                })();
                if let Err(f) = res {
                    cx.inner_failure(f.with_inner(inner))?;
                }
            }
        }
    }
    cx.add_evals(evals);
    cx.inner_nontrivial += nontrivial_inner;
    let kept_incomplete = kept_ids.iter().any(|k| matches!(w.bands.get(k), Some(BandState::Incomplete)));
    cx.label_if(case.dry_run, "dry-run");
    cx.label_if(r.result.is_err(), "refused");
    cx.label_if(requested.is_empty(), "pure-gc");
    cx.label_if(!requested.is_empty() && kept_ids.is_empty(), "delete-all");
    cx.label_if(shared_block, "block-shared-between-deleted-and-kept");
    cx.label_if(kept_incomplete, "kept-incomplete-band");
    cx.nontrivial = r.result.is_ok() && !requested.is_empty() && (shared_block || kept_incomplete);
    Ok(())
}

/// A block file is already missing when the delete runs: every block that is present and
/// referenced by a kept version must still be there afterwards, and the kept versions must
/// restore exactly as they did just before the delete.
fn run_with_missing_block(w: &World, requested: &[u32], frac: u16, cx: &mut Cx) -> CaseResult {
    // Two bits of the generated value choose the shape: collect garbage first (so that every
    // present block is referenced when the damage happens), and/or make the delete a pure gc.
    let requested: &[u32] = if frac & 1 == 1 { &[] } else { requested };
    if frac & 2 == 2 {
        let _ = ops::delete_bands(&w.arch, &None, &[], false, false);
    }
    let pre0 = format::scan(&w.arch);
    let blocks: Vec<String> = pre0.blocks.values().filter(|b| b.file_len > 0).map(|b| b.relpath.clone()).collect();
    if blocks.is_empty() {
        return Ok(());
    }
    let victim = &blocks[(frac as usize * blocks.len()) >> 16];
    std::fs::remove_file(w.arch.join(victim)).unwrap();
    let pre = format::scan(&w.arch);
    let ids: Vec<u32> = pre.bands.keys().copied().collect();
    let kept: Vec<u32> = ids.iter().copied().filter(|i| !requested.contains(i)).collect();
    // restores of the kept complete versions before the delete (some may now report errors)
    let mut before = vec![];
    for (id, _) in w.complete_bands() {
        if kept.contains(&id) {
            let dest = cx.dir("r").join(format!("mb{id}"));
            let r = ops::restore(&w.arch, &None, &dest, &Sel::Band(id), None, &[], false);
            before.push((id, crate::tree::snapshot(&dest), r.reported_error()));
            crate::engine::force_remove(&dest);
        }
    }
    let r = ops::delete_bands(&w.arch, &None, requested, false, false);
    if let Some(p) = &r.panic {
        fail!(format!("C05/delete-panic@{}", ops::panic_site(p)), "{p}");
    }
    let post = format::scan(&w.arch);
    if r.result.is_ok() {
        let referenced = pre.referenced_hashes(kept.iter().copied());
        for (h, b) in &pre.blocks {
            if b.file_len > 0 && referenced.contains(h) && !post.blocks.contains_key(h) {
                fail!(
                    "C05/referenced-block-removed/archive-with-a-missing-block",
                    "block {} is referenced by a kept version and was present, but the delete of {requested:?} removed it (another block, {victim}, had been missing beforehand)",
                    &h[..12]
                );
            }
        }
    }
    for (id, snap, reported) in &before {
        if !post.bands.contains_key(id) {
            continue;
        }
        let dest = cx.dir("r").join(format!("ma{id}"));
        let r2 = ops::restore(&w.arch, &None, &dest, &Sel::Band(*id), None, &[], false);
        let diff = crate::tree::first_diff(snap, &crate::tree::snapshot(&dest), crate::tree::CmpOpts { root_meta: false, dir_mtime: false, identity: false, mtime: false });
        crate::engine::force_remove(&dest);
        ensure!(
            diff.is_none() && r2.reported_error() == *reported,
            "C05/kept-version-changed/archive-with-a-missing-block",
            "version {id} restored differently after the delete of {requested:?}: {diff:?} ({})",
            r2.describe()
        );
    }
    cx.add_evals(1);
    cx.label("missing-block-before-delete");
    cx.nontrivial = r.result.is_ok() && !kept.is_empty();
    Ok(())
}

thread_local! { static T0: std::time::Instant = std::time::Instant::now(); }

/// Scale probe: a kept version with more than 10 000 index hunks (see probes.rs).
fn enumerate(_tier: Tier, idx: u32, of: u32, cx: &mut Cx) -> CaseResult {
    if !crate::probes::mine(idx, of) {
        return Ok(());
    }
    T0.with(|_| ());
    let (opts, tree) = crate::probes::many_hunks_tree(10_012);
    let sub = cx.dir("many-hunks");
    std::fs::create_dir_all(sub.join("r")).unwrap();
    let mut w = World::new(&sub, &tree);
    let b = ops::backup(&w.arch, &None, &w.src, opts, &[]);
    ensure!(!ops::backup_reported_error(&b), "C05/probe-setup", "{}", b.describe());
    // a second version with one more file, then delete it again
    std::fs::write(w.src.join("w0").join("zz-new"), b"brand new content of the second version").unwrap();
    crate::engine::heartbeat();
    let b = ops::backup(&w.arch, &None, &w.src, opts, &[]);
    ensure!(!ops::backup_reported_error(&b), "C05/probe-setup", "{}", b.describe());
    w.bands.insert(0, crate::history::BandState::Complete(tree.clone()));
    crate::engine::heartbeat();
    let r = ops::delete_bands(&w.arch, &None, &[1], false, false);
    ensure!(r.clean(), "C05/probe-many-hunks/delete-error", "{}", r.describe());
    let post = format::scan(&w.arch);
    let referenced = post.referenced_hashes([0u32].into_iter());
    ensure!(
        post.bands.keys().copied().collect::<Vec<_>>() == vec![0],
        "C05/probe-many-hunks/wrong-versions-removed",
        "{:?}",
        post.bands.keys()
    );
    ensure!(
        post.bands[&0].hunks.len() > 10_000,
        "C05/harness/probe-too-small",
        "only {} hunks",
        post.bands[&0].hunks.len()
    );
    if let Some(h) = referenced.iter().find(|h| !post.blocks.contains_key(*h)) {
        fail!("C05/referenced-block-removed/probe-many-hunks", "block {} referenced by the kept 10 000-hunk version is gone", &h[..12]);
    }
    if let Some(h) = post.blocks.keys().find(|h| !referenced.contains(*h)) {
        fail!("C05/unreferenced-block-remains/probe-many-hunks", "block {} is unreferenced but still present", &h[..12]);
    }
    crate::engine::heartbeat();
    let mut n = 0;
    check_restore(&w, cx, &Sel::Band(0), &tree, 0, "C05/probe-many-hunks/kept-version", &mut n)?;
    cx.add_evals(1);
    cx.inner_nontrivial += 1;
    crate::engine::force_remove(&sub);

    // Many versions: 135 versions that each own one block, two of them deleted; each of the
    // 133 kept ones must keep its block and restore.
    crate::engine::heartbeat();
    let m = crate::probes::plain_meta();
    let mut t = crate::tree::Tree::empty_root(crate::tree::Meta { mode: 0o755, ..m });
    t.0.insert("/same".into(), crate::tree::Node { kind: crate::tree::Kind::File { pool: 3, len: 500 }, meta: m });
    t.0.insert("/varies".into(), crate::tree::Node { kind: crate::tree::Kind::File { pool: 4, len: 1000 }, meta: m });
    let sub = cx.dir("many-versions");
    std::fs::create_dir_all(sub.join("r")).unwrap();
    let mut cx3 = crate::engine::sub_cx(cx, sub.clone());
    cx3.scratch = sub.clone();
    let mut w = World::new(&sub, &t);
    let o = ops::Opts { hunk: 100, block: 1 << 16, cap: 0 };
    for v in 0..135u32 {
        if v % 8 == 0 {
            crate::engine::heartbeat();
        }
        if v > 0 {
            let e = crate::history::Edit::Modify { idx: 65_000, pool: 2 + (v % 6) as u8, dlen: 1, mtime_s: m.mtime_s + v as i64, mtime_ns: 0 };
            let _ = w.apply(&crate::history::Op::Mutate(vec![e]));
        }
        let s = w.apply(&crate::history::Op::Backup(o));
        ensure!(matches!(&s, crate::history::StepKind::Backup { report, .. } if report.clean()), "C05/probe-setup", "version {v}");
    }
    if std::env::var("VERIF_TIMING").is_ok() {
        eprintln!("C05 many-versions: backups done at {:?}", T0.with(|t| t.elapsed()));
    }
    let r = ops::delete_bands(&w.arch, &None, &[3, 10], false, false);
    ensure!(r.clean(), "C05/probe-many-versions/delete-error", "{}", r.describe());
    if std::env::var("VERIF_TIMING").is_ok() {
        eprintln!("C05 many-versions: delete done at {:?}", T0.with(|t| t.elapsed()));
    }
    w.bands.remove(&3);
    w.bands.remove(&10);
    let post = format::scan(&w.arch);
    let kept: Vec<u32> = post.bands.keys().copied().collect();
    ensure!(kept.len() == 133, "C05/probe-many-versions/wrong-versions-removed", "{} versions remain", kept.len());
    let referenced = post.referenced_hashes(kept.iter().copied());
    if let Some(h) = referenced.iter().find(|h| !post.blocks.contains_key(*h)) {
        fail!("C05/referenced-block-removed/probe-many-versions", "block {} referenced by one of 133 kept versions is gone", &h[..12]);
    }
    let mut n = 0;
    for (id, tr) in w.complete_bands() {
        if id % 8 == 0 {
            crate::engine::heartbeat();
        }
        check_restore(&w, &cx3, &Sel::Band(id), tr, 0, "C05/probe-many-versions/kept-version", &mut n)?;
    }
    if std::env::var("VERIF_TIMING").is_ok() {
        eprintln!("C05 many-versions: restores done at {:?}", T0.with(|t| t.elapsed()));
    }
    crate::engine::force_remove(&sub);
    cx.add_evals(70);
    cx.inner_nontrivial += 1;
    Ok(())
}

pub fn prop() -> Prop<Case> {
    Prop {
        id: "C05",
        level: "fault_enumeration",
        rule: "case = (history of <=8 ops with backups and interrupted backups, subset of the existing versions to delete incl. none and all, dry-run flag) generated by proptest. Fault-free run: on success the version set is exactly before minus S, every remaining complete version restores exactly, the independent scan finds referenced(kept) subset of present and present minus referenced(kept) empty, stats equal the directory diff; dry run or refusal leaves the directory byte-identical. Inner domain enumerated for successful real deletes: every mutating operation of the delete's logged trace as a crash point (storage frozen before it; quick thins to <=40), and every read/list/metadata operation x {other, not-found, permission-denied} as a single injected failure (quick <=40 ops): afterwards every remaining complete version must restore exactly. Non-trivial case = S non-empty and a block is shared between a deleted and a kept version, or a kept version is incomplete; non-trivial inner = any crash point, or a fault on an index file of a kept band; inner values distinct by construction. 30% of cases instead remove one block file before the delete (a damaged archive; optionally after a first garbage collection, optionally making the delete a pure gc): blocks present and referenced by kept versions must survive and kept versions must restore as just before. Two fixed scale probes per run: a kept version with 10 015 index hunks beside a version that is deleted; and 72 versions that each own one block, two of them deleted, the 70 kept ones restored; since round 7 the versions to delete are named in ascending, descending or rotated order, and in a fifth of the cases the tails of the complete versions carry no index_hunk_count (archives written by conserve before 0.6.4); since round 9 the many-versions probe has 135 versions (133 kept)",
        assumptions: &[
            "remove_dir_all of a band directory is one atomic transport operation in this model",
            "zero-length block files (leftovers of a killed write) are not counted as blocks",
        ],
        cases: |t| t.pick(120, 600),
        strategy,
        run,
        enumerate: Some(enumerate),
        exhaustive: |_| false,
        max_shrink_iters: 100,
    }
}
