//! C06 — a garbage collection and a backup running together never lose data.

use std::collections::BTreeMap;

use proptest::prelude::*;
use serde::{Deserialize, Serialize};
use serde_json::json;

use crate::engine::{CaseResult, Cx, Failure, Prop, Tier};
use crate::format;
use crate::history::{Edit, World, apply_edit, edit_strategy};
use crate::hooks::V;
use crate::ops::{self, Opts, Sel};
use crate::race::{self, Schedule};
use crate::scen;
use crate::tree::{self, CmpOpts, Kind, Meta, Node, Tree};
use crate::{ensure, fail};

/// One scheduled run: the schedule and the injected storage errors (usually none).
#[derive(Debug, Clone, PartialEq, Serialize, Deserialize)]
pub struct Inner {
    pub sch: Schedule,
    #[serde(default)]
    pub faults: Vec<crate::hooks::RaceFault>,
    /// Run the delete/gc with the other value of `break_lock` than the case's.
    #[serde(default)]
    pub flip_break_lock: bool,
    /// The head the backup writes is re-dated this many days into the past right after it is
    /// written (a backup that has been running for that long when the collector starts).
    #[serde(default)]
    pub head_age_days: u16,
}

#[derive(Debug, Clone, Serialize, Deserialize)]
pub struct Case {
    pub initial: Tree,
    pub opts: Opts,
    /// Files (pool, len) present in version 0 only; their content reappears in the new source.
    pub revenants: Vec<(u8, u32)>,
    /// Garbage variant: the revenants are only ever stored by an interrupted backup
    /// (crashed before its k-th mutating operation) instead of a version that gets deleted.
    pub garbage_variant: Option<u16>,
    pub edits: Vec<Edit>,
    /// Delete version 0 (true) or pure gc (false; forced in the garbage variant).
    pub delete_v0: bool,
    pub backup_opts: Opts,
    pub random: Vec<Vec<(u8, u16)>>,
    /// Renumber the existing versions so that the newest is b9999 (the backup then creates
    /// b10000: five digits beside four).
    #[serde(default)]
    pub five_digit_ids: bool,
    /// The delete/gc runs with `break_lock` (which must still refuse while a backup runs).
    #[serde(default)]
    pub break_lock: bool,
    /// A GC_LOCK left behind by a killed collector is in the archive beforehand.
    #[serde(default)]
    pub stale_lock: bool,
    /// The archive holds no version at all, only garbage blocks (an interrupted first backup
    /// whose directory a killed delete has already removed): the collector races with what
    /// becomes the first version.
    #[serde(default)]
    pub no_versions: bool,
}

fn strategy(tier: Tier) -> BoxedStrategy<Case> {
    (
        tree::gen_tree_strategy(scen::small_cfg()),
        scen::small_opts(),
        prop::collection::vec((2u8..8, prop_oneof![1u32..60, 60u32..600]), 1..4),
        prop::option::weighted(0.35, 6u16..40),
        prop::collection::vec(edit_strategy(scen::small_cfg()), 0..3),
        prop::bool::weighted(0.8),
        scen::small_opts(),
        prop::collection::vec(prop::collection::vec((0u8..2, 1u16..15), 2..12), tier.pick(20, 200)),
        prop::bool::weighted(0.25),
        (prop::bool::weighted(0.35), prop::bool::weighted(0.15), prop::bool::weighted(0.25)),
    )
        .prop_map(|(g, opts, revenants, garbage_variant, edits, delete_v0, backup_opts, random, five_digit_ids, (break_lock, stale_lock, no_versions))| Case {
            initial: g.build(opts),
            opts,
            revenants,
            garbage_variant,
            edits,
            delete_v0,
            // mostly the same blocking as before, so that the revenants hash to the old blocks
            backup_opts: if backup_opts.hunk % 4 != 0 { Opts { hunk: backup_opts.hunk, ..opts } } else { backup_opts },
            random,
            five_digit_ids,
            break_lock,
            // a stale lock without break_lock only makes both sides refuse
            stale_lock: stale_lock && break_lock,
            no_versions,
        })
        .boxed()
}

fn rev_meta(i: usize) -> Meta {
    Meta {
        mode: 0o644,
        mtime_s: 1_400_000_000 + i as i64,
        mtime_ns: 0,
        uid: 0,
        gid: 0,
    }
}

fn run(case: &Case, cx: &mut Cx) -> CaseResult {
    // Build the archive: v0 holds the revenant files; v1 does not; the new source has them again.
    let mut t_with = case.initial.clone();
    for (i, (pool, len)) in case.revenants.iter().enumerate() {
        t_with.0.insert(
            format!("/rev{i}"),
            Node { kind: Kind::File { pool: *pool, len: (*len).max(1) }, meta: rev_meta(i) },
        );
    }
    let t_without = case.initial.clone();
    let mut w = World::new(&cx.scratch, &t_with);
    let mut sources: BTreeMap<u32, Tree> = BTreeMap::new();
    let mut delete_ids: Vec<u32> = vec![];
    match case.garbage_variant {
        _ if case.no_versions => {
            // a first backup of the tree with the revenants is killed late; the delete of that
            // version is killed after it removed the version's directory: blocks, no version
            let k = 8 + case.garbage_variant.unwrap_or(20) as usize;
            let ctl = crate::hooks::Ctl::new(&w.arch, crate::hooks::Plan::FreezeAtMutating { k, torn: false });
            let hook: ops::Hook = Some(ctl as std::sync::Arc<dyn conserve::transport::verif::Interceptor>);
            let _ = ops::backup(&w.arch, &hook, &w.src, Opts { hunk: 100_000, ..case.opts }, &[]);
            for id in format::scan(&w.arch).bands.keys() {
                std::fs::remove_dir_all(w.arch.join(format::band_dirname(*id))).unwrap();
            }
            tree::rematerialise(&t_with, &t_without, &w.src);
        }
        None => {
            let b = ops::backup(&w.arch, &None, &w.src, case.opts, &[]);
            ensure!(!ops::backup_reported_error(&b), "C06/setup", "{}", b.describe());
            sources.insert(0, t_with.clone());
            tree::rematerialise(&t_with, &t_without, &w.src);
            let b = ops::backup(&w.arch, &None, &w.src, case.opts, &[]);
            ensure!(!ops::backup_reported_error(&b), "C06/setup", "{}", b.describe());
            sources.insert(1, t_without.clone());
            if case.delete_v0 {
                delete_ids.push(0);
            }
        }
        Some(k) => {
            // v0 complete without revenants; an interrupted backup stores them as garbage; then a
            // complete v2 without them again (so the collector is allowed to run).
            tree::rematerialise(&t_with, &t_without, &w.src);
            let b = ops::backup(&w.arch, &None, &w.src, case.opts, &[]);
            ensure!(!ops::backup_reported_error(&b), "C06/setup", "{}", b.describe());
            sources.insert(0, t_without.clone());
            tree::rematerialise(&t_without, &t_with, &w.src);
            let ctl = crate::hooks::Ctl::new(&w.arch, crate::hooks::Plan::FreezeAtMutating { k: k as usize, torn: false });
            let hook: ops::Hook = Some(ctl as std::sync::Arc<dyn conserve::transport::verif::Interceptor>);
            let _ = ops::backup(&w.arch, &hook, &w.src, Opts { hunk: 100_000, ..case.opts }, &[]);
            // if the crash point lay beyond the end of the backup it completed: then it is an
            // ordinary version holding the revenants
            let sc = format::scan(&w.arch);
            for (id, b) in &sc.bands {
                if *id != 0 && !b.tail.is_absent() {
                    sources.insert(*id, t_with.clone());
                }
            }
            tree::rematerialise(&t_with, &t_without, &w.src);
            let b = ops::backup(&w.arch, &None, &w.src, case.opts, &[]);
            ensure!(b.result.is_ok() && b.panic.is_none(), "C06/setup", "{}", b.describe());
            let id = format::scan(&w.arch).bands.keys().copied().max().unwrap();
            sources.insert(id, t_without.clone());
            // the interrupted band itself is deleted together with the garbage
            if let Some(mid) = format::scan(&w.arch).bands.keys().copied().find(|b| *b != 0 && *b != id) {
                delete_ids.push(mid);
            }
        }
    }
    // the new source: revenants are back (under new names too), plus some edits
    let mut t_new = t_without.clone();
    for (i, (pool, len)) in case.revenants.iter().enumerate() {
        let node = Node { kind: Kind::File { pool: *pool, len: (*len).max(1) }, meta: rev_meta(100 + i) };
        t_new.0.insert(format!("/rev{i}"), node.clone());
        t_new.0.insert(format!("/zz-copy{i}"), node);
    }
    for e in &case.edits {
        apply_edit(&mut t_new, e);
    }
    t_new.check_invariant();
    tree::rematerialise(&t_without, &t_new, &w.src);
    w.tree = t_new.clone();

    if case.five_digit_ids && !case.no_versions {
        // renumber: the newest existing version becomes b9999
        let ids: Vec<u32> = format::scan(&w.arch).bands.keys().copied().collect();
        let top = *ids.last().unwrap();
        let shift = 9999 - top;
        for id in ids.iter().rev() {
            std::fs::rename(w.arch.join(format::band_dirname(*id)), w.arch.join(format::band_dirname(id + shift))).unwrap();
        }
        sources = sources.into_iter().map(|(k, v)| (k + shift, v)).collect();
        for d in delete_ids.iter_mut() {
            *d += shift;
        }
    }
    if case.stale_lock {
        std::fs::write(w.arch.join("GC_LOCK"), b"{}\n").unwrap();
    }
    let break_lock = case.break_lock;
    let pristine = cx.dir("pristine");
    scen::copy_dir(&w.arch, &pristine);
    let pre = format::scan(&pristine);
    std::fs::create_dir_all(cx.dir("r")).unwrap();
    // which blocks does the collector consider garbage, and does the new source contain them?
    let kept: Vec<u32> = pre.bands.keys().copied().filter(|b| !delete_ids.contains(b)).collect();
    let referenced = pre.referenced_hashes(kept.iter().copied());
    let garbage: Vec<&String> = pre.blocks.keys().filter(|h| !referenced.contains(*h)).collect();
    let mut hazard = false;

    // solo traces, to place the switch points
    let (g_trace, b_trace) = {
        let ctl = crate::hooks::Ctl::new(&w.arch, crate::hooks::Plan::None);
        let hook: ops::Hook = Some(ctl.clone() as std::sync::Arc<dyn conserve::transport::verif::Interceptor>);
        let _ = ops::delete_bands(&w.arch, &hook, &delete_ids, false, break_lock);
        let g = ctl.log();
        crate::engine::force_remove(&w.arch);
        scen::copy_dir(&pristine, &w.arch);
        // (switch points of the backup are taken from a run that is not refused at once)
        let _ = std::fs::remove_file(w.arch.join("GC_LOCK"));
        let ctl = crate::hooks::Ctl::new(&w.arch, crate::hooks::Plan::None);
        let hook: ops::Hook = Some(ctl.clone() as std::sync::Arc<dyn conserve::transport::verif::Interceptor>);
        let _ = ops::backup(&w.arch, &hook, &w.src, case.backup_opts, &[]);
        // does the new version reuse a block the collector counts as garbage?
        let solo = format::scan(&w.arch);
        if let Some(newest) = solo.bands.keys().copied().max() {
            let used = solo.referenced_hashes(std::iter::once(newest));
            hazard = garbage.iter().any(|g| used.contains(*g));
        }
        (g, ctl.log())
    };
    let (g_all, g_crit) = race::key_points(&g_trace);
    let (b_all, b_crit) = race::key_points(&b_trace);
    if cx.replay {
        for (name, t) in [("gc", &g_trace), ("backup", &b_trace)] {
            eprintln!("solo trace of {name}:");
            for l in t.iter() {
                eprintln!("  {:3} {:?} {} ok={}", l.index, l.key.verb, l.key.path, l.ok);
            }
        }
        eprintln!("gc points all={g_all:?} critical={g_crit:?}\nbackup points all={b_all:?} critical={b_crit:?}");
        eprintln!("garbage blocks: {}", garbage.len());
    }
    let cap = cx.tier.pick(10usize, 60usize);
    let all = [scen::thin(&g_all, cap), scen::thin(&b_all, cap)];
    let crit = [scen::thin(&g_crit, cx.tier.pick(6, 10)), scen::thin(&b_crit, cx.tier.pick(6, 10))];
    let mut schedules = race::enumerate_keyed(&all, &crit);
    schedules.extend(case.random.iter().map(|r| Schedule(r.clone())));
    let mut runs: Vec<Inner> = schedules.into_iter().map(|sch| Inner { sch, faults: vec![], flip_break_lock: false, head_age_days: 0 }).collect();
    // One transient storage error in the collector while the backup is under way (the
    // collector starts after the backup has performed p operations and then runs through),
    // and one in the backup's own look at the lock / the version list while the collector
    // is under way.
    {
        use crate::hooks::{Kind as EK, RaceFault};
        let late_reads: Vec<u16> = g_trace
            .iter()
            .enumerate()
            .filter(|(i, l)| *i >= 8 && !l.key.verb.mutating())
            .map(|(i, _)| i as u16)
            .collect();
        let mut g_ordinals: Vec<u16> = (0..g_trace.len().min(8) as u16).collect();
        g_ordinals.extend(scen::thin(&late_reads, cx.tier.pick(4, 12)));
        let b_starts = scen::thin(&crit[1], cx.tier.pick(5, 10));
        for nth in g_ordinals {
            for kind in [EK::Other, EK::PermissionDenied] {
                for p in &b_starts {
                    runs.push(Inner {
                        sch: Schedule(vec![(1, *p), (0, u16::MAX)]),
                        faults: vec![RaceFault { actor: 0, verb: None, prefix: String::new(), nth, kind, freeze_torn: false }],
                        flip_break_lock: false,
                        head_age_days: 0,
                    });
                }
            }
        }
        let g_starts = scen::thin(&crit[0], cx.tier.pick(5, 10));
        // every look the backup takes at the archive before it stores its first block (lock
        // tests, version list, heads and tails, block listing), whatever operation it is made
        // with: answered "not found" or with an error while the collector is paused
        let first_store = b_trace.iter().position(|l| l.key.verb == V::Write && l.key.path.starts_with("d/")).unwrap_or(b_trace.len());
        let looks: Vec<u16> = b_trace[..first_store].iter().enumerate().filter(|(_, l)| !l.key.verb.mutating()).map(|(i, _)| i as u16).collect();
        for nth in scen::thin(&looks, cx.tier.pick(10, 30)) {
            for kind in [EK::NotFound, EK::Other] {
                for p in scen::thin(&g_starts, cx.tier.pick(4, 10)) {
                    runs.push(Inner {
                        sch: Schedule(vec![(0, p), (1, u16::MAX)]),
                        faults: vec![RaceFault { actor: 1, verb: None, prefix: String::new(), nth, kind, freeze_torn: false }],
                        flip_break_lock: false,
                        head_age_days: 0,
                    });
                }
            }
        }
        // ... and the same when the backup had already begun (it is past its first lock test)
        // before the collector ran up to a critical point: backup p1 operations, collector up
        // to p2, backup to its end with one of its later looks failing, collector to its end
        let b_early: Vec<u16> = scen::thin(&crit[1], cx.tier.pick(3, 6));
        for p1 in &b_early {
            let later: Vec<u16> = looks.iter().copied().filter(|n| *n >= *p1).collect();
            for nth in scen::thin(&later, cx.tier.pick(8, 20)) {
                for kind in [EK::NotFound, EK::Other] {
                    for p2 in scen::thin(&g_starts, cx.tier.pick(4, 10)) {
                        runs.push(Inner {
                            sch: Schedule(vec![(1, *p1), (0, p2), (1, u16::MAX), (0, u16::MAX)]),
                            faults: vec![RaceFault { actor: 1, verb: None, prefix: String::new(), nth, kind, freeze_torn: false }],
                            flip_break_lock: false,
                            head_age_days: 0,
                        });
                    }
                }
            }
        }
        for (verb, prefix, nth) in [(V::Metadata, "GC_LOCK", 0u16), (V::Metadata, "GC_LOCK", 1), (V::ListDir, "", 0), (V::ListDir, "", 1)] {
            for kind in [EK::Other, EK::PermissionDenied] {
                for p in &g_starts {
                    runs.push(Inner {
                        sch: Schedule(vec![(0, *p), (1, u16::MAX)]),
                        faults: vec![RaceFault { actor: 1, verb: Some(verb), prefix: prefix.to_string(), nth, kind, freeze_torn: false }],
                        flip_break_lock: false,
                        head_age_days: 0,
                    });
                }
            }
        }
    }
    // The other value of break_lock, over the schedules in which one actor starts while the
    // other is paused at one of its critical points.
    for p in scen::thin(&crit[1], cx.tier.pick(8, 10)) {
        runs.push(Inner { sch: Schedule(vec![(1, p), (0, u16::MAX)]), faults: vec![], flip_break_lock: true, head_age_days: 0 });
    }
    for p in scen::thin(&crit[0], cx.tier.pick(8, 10)) {
        runs.push(Inner { sch: Schedule(vec![(0, p), (1, u16::MAX)]), faults: vec![], flip_break_lock: true, head_age_days: 0 });
    }
    // A backup that has been under way for eight days, or for four hundred, when the
    // collector starts: it pauses at one of its critical points (its head, written by then,
    // is re-dated), the collector runs through, the backup finishes.
    for days in [8u16, 400] {
        for p in scen::thin(&crit[1], cx.tier.pick(6, 10)) {
            runs.push(Inner { sch: Schedule(vec![(1, p), (0, u16::MAX)]), faults: vec![], flip_break_lock: false, head_age_days: days });
        }
    }
    let only: Option<Inner> = cx.only_inner.as_ref().and_then(|v| {
        serde_json::from_value::<Inner>(v.clone())
            .ok()
            .or_else(|| serde_json::from_value::<Schedule>(v.clone()).ok().map(|sch| Inner { sch, faults: vec![], flip_break_lock: false, head_age_days: 0 }))
    });
    let mut evals = 0u64;
    let mut nontrivial = 0u64;
    let mut n = 0u32;
    for inner in runs {
        if let Some(o) = &only {
            if *o != inner {
                continue;
            }
        }
        let sch = &inner.sch;
        crate::engine::heartbeat();
        crate::engine::force_remove(&w.arch);
        scen::copy_dir(&pristine, &w.arch);
        let (a1, a2) = (w.arch.clone(), w.arch.clone());
        let src = w.src.clone();
        let ids = delete_ids.clone();
        let bo = case.backup_opts;
        let break_lock = break_lock != inner.flip_break_lock;
        crate::hooks::set_head_age(inner.head_age_days as i64 * 86_400);
        let out = race::run_with_faults(
            &w.arch,
            vec![
                Box::new(move |hook| ops::delete_bands(&a1, &hook, &ids, false, break_lock).map(|_| ())),
                Box::new(move |hook| ops::backup(&a2, &hook, &src, bo, &[]).map(|_| ())),
            ],
            sch,
            inner.faults.clone(),
        );
        crate::hooks::set_head_age(0);
        evals += 1;
        // non-trivial: each actor runs at least one operation between the other's lock check
        // and its first mutation of blocks/bands
        let pos = |a: usize, f: &dyn Fn(&crate::hooks::Logged) -> bool| out.trace.iter().position(|(x, l)| *x == a && f(l));
        let b_lock_check = pos(1, &|l| l.key.verb == V::Metadata && l.key.path == "GC_LOCK");
        let b_first_mut = pos(1, &|l| l.key.verb.mutating());
        let g_lock_write = pos(0, &|l| l.key.verb == V::Write && l.key.path == "GC_LOCK");
        let g_first_delete = pos(0, &|l| matches!(l.key.verb, V::RemoveFile | V::RemoveDirAll) && l.key.path != "GC_LOCK");
        let overlap = match (b_lock_check, b_first_mut, g_lock_write, g_first_delete) {
            (Some(bl), Some(bm), Some(gl), Some(gd)) => {
                out.trace.iter().enumerate().any(|(i, (a, _))| *a == 0 && i > bl && i < bm)
                    && out.trace.iter().enumerate().any(|(i, (a, _))| *a == 1 && i > gl && i < gd)
            }
            _ => false,
        };
        let fault_hit = out.trace.iter().any(|(_, l)| l.injected.is_some());
        if overlap && hazard || (fault_hit && hazard) {
            nontrivial += 1;
        }
        let res: CaseResult = (|| {
            for (i, r) in out.results.iter().enumerate() {
                if let Some(p) = &r.panic {
                    let who = if i == 0 { "delete" } else { "backup" };
                    fail!(format!("C06/{who}-panic@{}", ops::panic_site(p)), "{p}");
                }
            }
            let post = format::scan(&w.arch);
            for (id, band) in &post.bands {
                if !band.tail.present_nonempty() {
                    continue;
                }
                for e in band.all_entries() {
                    if let Err(m) = post.file_bytes(e) {
                        let which = if pre.bands.contains_key(id) { "old" } else { "new" };
                        fail!(
                            format!("C06/complete-version-names-removed-block/{which}-version"),
                            "version b{id:04} is complete but {}: {m} (delete={} backup={})",
                            e.apath,
                            out.results[0].describe(),
                            out.results[1].describe()
                        );
                    }
                }
                let want = match sources.get(id) {
                    Some(t) => t,
                    None => &t_new,
                };
                n += 1;
                let dest = cx.dir("r").join(format!("d{n}"));
                let rr = ops::restore(&w.arch, &None, &dest, &Sel::Band(*id), None, &[], false);
                let got = tree::snapshot(&dest);
                let mut expected = tree::expected(want);
                // A backup that met an injected storage error and SAID so (an error returned
                // or sent to its monitor) may have left files out of the version it closed;
                // what the version does hold must still be right, and no block may be missing.
                let backup_said_so = out.results[1].result.is_err() || !out.results[1].monitor_errors.is_empty();
                if !inner.faults.is_empty() && backup_said_so && !pre.bands.contains_key(id) {
                    expected.retain(|p, _| got.contains_key(p));
                }
                let diff = tree::first_diff(&expected, &got, CmpOpts::restore());
                crate::engine::force_remove(&dest);
                ensure!(
                    rr.clean() && diff.is_none(),
                    "C06/complete-version-does-not-restore",
                    "version b{id:04}: {} {:?}",
                    rr.describe(),
                    diff
                );
            }
            Ok(())
        })();
        if let Err(f) = res {
            let f = if inner.faults.is_empty() { f } else { Failure::new(format!("{}/with-storage-error", f.signature), f.message.clone()) };
            cx.inner_failure(f.with_inner(json!(inner)))?;
        }
    }
    cx.add_evals(evals);
    cx.inner_nontrivial += nontrivial;
    cx.label_if(hazard, "garbage-reappears-in-source");
    cx.label_if(case.garbage_variant.is_some(), "garbage-from-interrupted-backup");
    cx.label_if(!delete_ids.is_empty(), "deletes-a-version");
    cx.label_if(case.five_digit_ids, "ids-cross-b9999");
    cx.label_if(case.no_versions, "no-version-only-garbage");
    Ok(())
}

pub fn prop() -> Prop<Case> {
    Prop {
        id: "C06",
        level: "exploration",
        rule: "case = archive constructed so that the hazard exists: blocks that are garbage from the collector's point of view (referenced only by the version being deleted, or left by an interrupted backup) whose content reappears in the new source (in a quarter of the cases the versions are renumbered so that the backup creates b10000 beside b9999); actors G = delete_bands(S) / pure gc and B = backup(new source) on the same directory under the deterministic scheduler (exactly one storage operation in flight; an execution is a function of the schedule). Inner domain: switch points are derived from each actor's solo trace: 'all' brackets every lock-related, root-listing and mutating operation (capped at 10 quick / 60 thorough per actor), 'critical' is the handful around the lock test / lock write, band creation, first block write, the collector's re-check and its first deletions; every schedule with <=2 context switches over 'all' and every schedule with 3 switches over 'critical', in both starting orders, plus generated random schedules with up to 11 segments. Oracle: both actors return (Ok or Err, no panic); afterwards every version with a tail has, per the independent decoder, no address naming a missing block, and restores with no error to the tree it was made from. Non-trivial = hazard present and each actor performs >=1 operation between the other's lock check/lock write and its first mutation; schedules distinct by construction; since round 6 a quarter of the cases hold no version at all, only garbage blocks (a killed first backup whose directory a killed delete removed), and every look the backup takes at the archive before its first stored block is failed once (not-found, other) while the collector is paused at a critical point, also in schedules in which the backup had begun before the collector; since round 8 runs in which the head the backup has written is re-dated 8 and 400 days into the past (a backup under way that long) while it pauses at a critical point and the collector runs through",
        assumptions: &[
            "interleaving granularity is one transport operation; storage is sequentially consistent",
            "switch points are restricted to operations bracketing lock, listing and mutating operations, so the <=3-switch space is covered where it can matter, not exhausted",
        ],
        cases: |t| t.pick(16, 300),
        strategy,
        run,
        enumerate: None,
        exhaustive: |_| false,
        max_shrink_iters: 20,
    }
}
