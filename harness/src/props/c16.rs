//! C16 — restore stays inside its destination and never clobbers by default.

use std::path::Path;
use std::sync::Arc;

use proptest::prelude::*;
use serde::{Deserialize, Serialize};

use crate::engine::{CaseResult, Cx, Failure, Prop, Tier};
use crate::hooks::{Ctl, Plan};
use crate::ops::{self, Hook, Opts, Sel};
use crate::tree::{self, CmpOpts, Kind, Meta, Node, Tree, TreeCfg};
use crate::{ensure, fail};

#[derive(Debug, Clone, Copy, PartialEq, Eq, Serialize, Deserialize)]
pub enum DestState {
    Absent,
    Empty,
    Populated,
}

#[derive(Debug, Clone, Serialize, Deserialize)]
pub struct Case {
    pub opts: Opts,
    /// Symlink targets may start with "@S@", replaced by the absolute sandbox path.
    pub tree: Tree,
    pub dest: DestState,
    pub overwrite: bool,
    pub subtree: Option<u16>,
    pub exclude: Vec<String>,
    /// Second class: replace the i-th directory by a symlink to a sentinel, back up again
    /// with the backup interrupted before its k-th mutating operation, restore that version.
    pub stitch: Option<(u16, u16, String)>,
    /// With `stitch`: before it, remove the i-th entry and run one more interrupted backup
    /// (stopped before its k-th mutating operation), so that three bands are stitched.
    #[serde(default)]
    pub pre_stitch: Option<(u16, u16)>,
    /// One storage error during the restore: (ordinal of the failing operation, kind).
    #[serde(default)]
    pub fault: Option<(u8, u8)>,
}

fn sentinel_target() -> BoxedStrategy<String> {
    let tail = prop::sample::select(vec!["out_file", "out_dir", "out_dir/inner", "", "out_dir/", "r", "r/dest"]);
    prop_oneof![
        4 => (1usize..6, tail.clone()).prop_map(|(k, t)| format!("{}{}", "../".repeat(k), t)),
        2 => tail.clone().prop_map(|t| format!("@S@/{t}")),
        // another symlink of the tree (a chain): resolved when the case is built
        2 => Just("@LINK@".to_string()),
        1 => Just("..".to_string()),
        1 => Just("/".to_string()),
        1 => Just(".".to_string()),
        1 => tree::name_strategy(),
    ]
    .boxed()
}

fn cfg() -> TreeCfg {
    TreeCfg {
        max_depth: 4,
        max_children: 5,
        max_len: 600,
        links: false,
        ..TreeCfg::full()
    }
}

fn strategy(_tier: Tier) -> BoxedStrategy<Case> {
    let links = prop::collection::vec(
        (any::<u16>(), tree::name_strategy(), sentinel_target(), tree::meta_strategy(cfg(), false)),
        1..6,
    );
    (
        tree::opts_tree_strategy(cfg()),
        links,
        prop_oneof![Just(DestState::Absent), Just(DestState::Empty), Just(DestState::Populated)],
        prop::bool::weighted(0.3),
        prop::option::weighted(0.3, any::<u16>()),
        prop::collection::vec(prop::sample::select(vec!["a", "/a", "*.txt", "b*", "é", "**/x"]).prop_map(String::from), 0..2),
        prop::option::weighted(0.35, (any::<u16>(), 0u16..30, sentinel_target())),
        (prop::option::weighted(0.5, (any::<u16>(), 0u16..40)), prop::option::weighted(0.25, (0u8..10, 0u8..4))),
    )
        .prop_map(|((opts, mut tree), links, dest, overwrite, subtree, exclude, stitch, (pre_stitch, fault))| {
            let dirs = tree.dirs();
            let mut last: Option<(String, String)> = None; // (dir, name) of the previous link
            for (d, name, target, meta) in links {
                let mut dir = dirs[(d as usize * dirs.len()) >> 16].clone();
                let target = if target == "@LINK@" {
                    match &last {
                        // chain: same directory, pointing at the previous link by name
                        Some((ldir, lname)) if *lname != name => {
                            dir = ldir.clone();
                            lname.clone()
                        }
                        _ => "..".to_string(),
                    }
                } else {
                    target
                };
                let p = tree::join(&dir, &name);
                if !tree.0.contains_key(&p) {
                    tree.0.insert(p, Node { kind: Kind::Link { target }, meta });
                    last = Some((dir, name));
                }
            }
            Case { opts, tree, dest, overwrite, subtree, exclude, stitch, pre_stitch, fault }
        })
        .boxed()
}

fn subst(t: &Tree, s_abs: &str) -> Tree {
    let mut t = t.clone();
    for n in t.0.values_mut() {
        if let Kind::Link { target } = &mut n.kind {
            if target.contains("@S@") {
                *target = target.replace("@S@", s_abs);
            }
        }
    }
    t
}

fn make_sentinels(s: &Path) {
    std::fs::create_dir_all(s.join("out_dir")).unwrap();
    std::fs::create_dir_all(s.join("r")).unwrap();
    std::fs::write(s.join("out_file"), b"sentinel file").unwrap();
    std::fs::write(s.join("out_dir/inner"), b"inner sentinel").unwrap();
    let m = |mode, uid| Meta { mode, mtime_s: 1_000_000_000, mtime_ns: 123, uid, gid: uid };
    tree::set_meta(&s.join("out_dir/inner"), false, &m(0o604, 1));
    tree::set_meta(&s.join("out_file"), false, &m(0o4711, 2));
    tree::set_meta(&s.join("out_dir"), false, &m(0o1770, 7));
}

/// Snapshot of everything in the sandbox outside `dest`.
fn outside(s: &Path, dest_rel: &str) -> tree::Snapshot {
    tree::snapshot(s)
        .into_iter()
        .filter(|(p, _)| !tree::under(dest_rel, p))
        .collect()
}

fn run(case: &Case, cx: &mut Cx) -> CaseResult {
    let s = cx.dir("S");
    let src = cx.dir("src");
    let arch = cx.dir("arch");
    make_sentinels(&s);
    let s_abs = s.to_string_lossy().into_owned();
    let t0 = subst(&case.tree, &s_abs);
    tree::materialise(&t0, &src);
    let c = ops::create_archive(&arch);
    ensure!(c.clean(), "C16/create", "{}", c.describe());
    let b = ops::backup(&arch, &None, &src, case.opts, &[]);
    ensure!(!ops::backup_reported_error(&b), "C16/backup-error", "{}", b.describe());
    let mut sel = Sel::Band(0);
    let mut stitched = false;
    let mut listing_tree = t0.clone();

    let mut t0 = t0;
    let mut removed_parent: Option<String> = None;
    let mut replaced_dir: Option<String> = None;
    if let (Some(_), Some((ri, rk))) = (&case.stitch, &case.pre_stitch) {
        // an earlier interrupted backup in which something had been removed
        let cands: Vec<String> = t0.0.keys().filter(|k| k.as_str() != "/").cloned().collect();
        if !cands.is_empty() {
            // half of the time a directory that has children and is not directly under the root
            let deep_dirs: Vec<String> = cands
                .iter()
                .filter(|c| t0.0[*c].is_dir() && tree::parent_of(c) != Some("/") && t0.0.keys().any(|k| tree::parent_of(k) == Some(c.as_str())))
                .cloned()
                .collect();
            let victim = if *rk % 2 == 0 && !deep_dirs.is_empty() {
                deep_dirs[(*ri as usize * deep_dirs.len()) >> 16].clone()
            } else {
                cands[(*ri as usize * cands.len()) >> 16].clone()
            };
            removed_parent = tree::parent_of(&victim).map(|s| s.to_string());
            let mut t_mid = t0.clone();
            t_mid.remove_subtree(&victim);
            tree::rematerialise(&t0, &t_mid, &src);
            let ctl = Ctl::new(&arch, Plan::FreezeAtMutating { k: *rk as usize + 3, torn: false });
            let hook: Hook = Some(ctl.clone() as Arc<dyn conserve::transport::verif::Interceptor>);
            let b = ops::backup(&arch, &hook, &src, Opts { hunk: 1, ..case.opts }, &[]);
            ensure!(b.panic.is_none(), "C16/backup-panic", "{}", b.describe());
            t0 = t_mid;
        }
    }
    let stitch_band = crate::format::scan(&arch).bands.keys().copied().max().unwrap_or(0) + 1;
    if let Some((di, k, target)) = &case.stitch {
        let dirs: Vec<String> = t0.dirs().into_iter().filter(|d| d != "/").collect();
        if !dirs.is_empty() {
            // half of the time the parent of what the earlier interrupted backup had removed
            let d = match &removed_parent {
                Some(p) if *k % 2 == 0 && p != "/" && dirs.contains(p) => p.clone(),
                _ => dirs[(*di as usize * dirs.len()) >> 16].clone(),
            };
            let mut t1 = t0.clone();
            let meta = t1.0[&d].meta;
            t1.remove_subtree(&d);
            // "@LINK@": the name of a sibling symlink (preferably one that sorts later, so that
            // it does not exist yet when this link is restored)
            let target = if target == "@LINK@" {
                let parent = tree::parent_of(&d).unwrap().to_string();
                let mut sibs: Vec<&String> = t1
                    .0
                    .iter()
                    .filter(|(p, n)| n.is_link() && tree::parent_of(p) == Some(parent.as_str()))
                    .map(|(p, _)| p)
                    .collect();
                sibs.sort_by(|a, b| crate::format::ref_cmp(b, a));
                sibs.first().map(|p| tree::base_name(p).to_string()).unwrap_or_else(|| "..".to_string())
            } else {
                target.replace("@S@", &s_abs)
            };
            // If the link leads to a sentinel directory, give that directory the same
            // sub-directory layout as the directory it replaces (as two releases of one
            // program have): entries deeper below the replaced directory then find their
            // parents on the far side of the link.
            {
                let dest = s.join("r").join("dest");
                let link_parent = dest.join(&tree::parent_of(&d).unwrap()[1..]);
                let mut resolved = std::path::PathBuf::new();
                for c in link_parent.join(&target).components() {
                    match c {
                        std::path::Component::ParentDir => {
                            resolved.pop();
                        }
                        std::path::Component::CurDir => {}
                        other => resolved.push(other),
                    }
                }
                if resolved.starts_with(&s) && !resolved.starts_with(&dest) && resolved != s && resolved.is_dir() {
                    for (p, n) in &t0.0 {
                        if n.is_dir() && p != &d && tree::under(&d, p) {
                            let _ = std::fs::create_dir_all(resolved.join(&p[d.len() + 1..]));
                        }
                    }
                }
            }
            // In two cases of five a second symlink sits beside the new one, named like it plus
            // a suffix that starts with a byte sorting before '/' (`cur` and `cur.bak`, `cur-1`):
            // in byte order it falls between the link and what used to be below the link.
            if *k % 5 < 2 {
                let sib = format!("{d}{}", [".bak", "-1", " x", "!"][*di as usize % 4]);
                if !t1.0.contains_key(&sib) && tree::base_name(&sib).len() <= 255 {
                    t1.0.insert(sib, Node { kind: Kind::Link { target: if *di % 2 == 0 { target.clone() } else { "nowhere".to_string() } }, meta });
                }
            }
            t1.0.insert(d.clone(), Node { kind: Kind::Link { target }, meta });
            tree::rematerialise(&t0, &t1, &src);
            let ctl = Ctl::new(&arch, Plan::FreezeAtMutating { k: *k as usize + 3, torn: false });
            let hook: Hook = Some(ctl.clone() as Arc<dyn conserve::transport::verif::Interceptor>);
            let opts = Opts { hunk: 1, ..case.opts };
            let b = ops::backup(&arch, &hook, &src, opts, &[]);
            ensure!(b.panic.is_none(), "C16/backup-panic", "{}", b.describe());
            if crate::format::scan(&arch).bands.get(&stitch_band).map(|b| b.head.present_nonempty()).unwrap_or(false) {
                sel = Sel::Band(stitch_band);
                stitched = ctl.triggered();
                listing_tree = t1;
                replaced_dir = Some(d.clone());
            }
        }
    }

    let dest = s.join("r").join("dest");
    match case.dest {
        DestState::Absent => {}
        DestState::Empty => std::fs::create_dir(&dest).unwrap(),
        DestState::Populated => {
            std::fs::create_dir(&dest).unwrap();
            // what is already there is chosen by the case: ordinary names, or only a
            // lost+found directory as on a fresh filesystem
            if case.tree.0.len() % 3 == 0 {
                std::fs::create_dir(dest.join("lost+found")).unwrap();
                std::fs::write(dest.join("lost+found").join("#123"), b"orphan").unwrap();
            } else {
                std::fs::write(dest.join("keep"), b"precious").unwrap();
                std::fs::create_dir(dest.join("a")).unwrap();
                std::fs::write(dest.join("a").join("keep2"), b"precious too").unwrap();
            }
            if dest.join("keep").exists() {
                tree::set_mtime(&dest.join("keep"), 999_999_999, 5);
            }
        }
    }
    let subtree: Option<String> = case.subtree.map(|i| {
        let dirs = listing_tree.dirs();
        match &replaced_dir {
            // a third of the time exactly the directory that has become a symlink
            Some(d) if i % 3 == 0 => d.clone(),
            _ => dirs[(i as usize * dirs.len()) >> 16].clone(),
        }
    });

    let before_out = outside(&s, "/r/dest");
    let before_dest = tree::snapshot(&dest);
    let rhook: Hook = case.fault.map(|(nth, kind)| {
        let plan = Plan::FailAtIndices([(nth as usize, crate::hooks::Kind::ALL[kind as usize % 4])].into_iter().collect());
        Ctl::new(&arch, plan) as Arc<dyn conserve::transport::verif::Interceptor>
    });
    let r = ops::restore(&arch, &rhook, &dest, &sel, subtree.as_deref(), &case.exclude, case.overwrite);
    if let Some(p) = &r.panic {
        fail!(format!("C16/restore-panic@{}", ops::panic_site(p)), "{p}");
    }
    let after_out = outside(&s, "/r/dest");
    let after_dest = tree::snapshot(&dest);

    // Nothing outside the destination may change (content, mode, owner, times, identity).
    let mut want = before_out.clone();
    let mut got = after_out.clone();
    if case.dest == DestState::Absent {
        // the parent directory legitimately gets a new entry
        for m in [&mut want, &mut got] {
            if let Some(n) = m.get_mut("/r") {
                n.mtime = (0, 0);
                n.ctime = (0, 0);
            }
        }
    }
    if let Some((field, msg)) = tree::first_diff(&want, &got, CmpOpts::untouched()) {
        let class = if stitched { "stitched-dir-replaced-by-symlink" } else { "tree" };
        return Err(Failure::new(
            format!("C16/{class}/outside-modified/{field}"),
            format!("restore of {sel:?} (subtree {subtree:?}) changed something outside the destination: {msg}"),
        ));
    }
    if case.dest == DestState::Populated && !case.overwrite {
        ensure!(
            r.result.is_err(),
            "C16/non-empty-destination-accepted",
            "restore into a non-empty destination without overwrite returned {}",
            r.describe()
        );
        if let Some((field, msg)) = tree::first_diff(&before_dest, &after_dest, CmpOpts::untouched()) {
            return Err(Failure::new(
                format!("C16/refused-but-destination-modified/{field}"),
                msg,
            ));
        }
    }

    // A second restore over the first: the older version, in which the replaced path is a
    // directory again, restored with `overwrite` into the destination that now holds the
    // symlink from the version restored first.
    let mut second = false;
    if replaced_dir.is_some() && r.result.is_ok() && case.fault.is_none() && subtree.is_none() {
        second = true;
        let before2 = outside(&s, "/r/dest");
        let r2 = ops::restore(&arch, &None, &dest, &Sel::Band(0), None, &case.exclude, true);
        if let Some(p) = &r2.panic {
            fail!(format!("C16/restore-panic@{}", ops::panic_site(p)), "{p}");
        }
        let after2 = outside(&s, "/r/dest");
        if let Some((field, msg)) = tree::first_diff(&before2, &after2, CmpOpts::untouched()) {
            return Err(Failure::new(
                format!("C16/second-restore-over-first/outside-modified/{field}"),
                format!("restoring version 0 with overwrite over a restore of {sel:?} changed something outside the destination: {msg} ({})", r2.describe()),
            ));
        }
        // ... and once more, asking only for the directory that the destination holds as a
        // symlink (the link survives the restore above: entries on it are refused)
        if let Some(d) = &replaced_dir {
            let r3 = ops::restore(&arch, &None, &dest, &Sel::Band(0), Some(d.as_str()), &case.exclude, true);
            if let Some(p) = &r3.panic {
                fail!(format!("C16/restore-panic@{}", ops::panic_site(p)), "{p}");
            }
            let after3 = outside(&s, "/r/dest");
            if let Some((field, msg)) = tree::first_diff(&before2, &after3, CmpOpts::untouched()) {
                return Err(Failure::new(
                    format!("C16/second-restore-of-the-subtree-over-first/outside-modified/{field}"),
                    format!("restoring only {d} of version 0 with overwrite over a restore of {sel:?} changed something outside the destination: {msg} ({})", r3.describe()),
                ));
            }
        }
    }
    cx.label_if(second, "second-restore-over-first");

    // Non-triviality: a restored symlink resolves (from its restored location) to a sentinel.
    let mut hits = false;
    for (p, n) in &after_dest {
        if n.kind == 'l' {
            let lp = tree::fs_path(&dest, p);
            if let Ok(real) = std::fs::canonicalize(&lp) {
                if real.starts_with(&s) && !real.starts_with(&dest) {
                    hits = true;
                }
            }
        }
    }
    cx.label_if(hits, "link-reaches-sentinel");
    cx.label_if(stitched, "stitched-version");
    cx.label_if(case.dest == DestState::Populated && !case.overwrite, "refusal-case");
    cx.label_if(case.dest == DestState::Populated && case.overwrite, "overwrite-case");
    cx.label_if(subtree.is_some(), "subtree");
    cx.label_if(subtree.is_some() && subtree == replaced_dir, "subtree-is-the-replaced-directory");
    cx.label_if(case.fault.is_some(), "storage-error-during-restore");
    cx.nontrivial = hits || (case.dest == DestState::Populated && !case.overwrite && listing_tree.0.len() > 1);
    Ok(())
}

pub fn prop() -> Prop<Case> {
    Prop {
        id: "C16",
        level: "exploration",
        rule: "case = (options, tree with 1-5 symlinks aimed at sentinel files/directories beside the destination via ../ chains, absolute paths, '..', '/', '.', other names, and other symlinks of the tree (chains); destination absent/empty/pre-populated (with ordinary entries, or with only a lost+found directory); overwrite flag; optional subtree and exclude selection; optionally a later interrupted backup in which a directory was replaced by such a symlink, itself optionally preceded by another interrupted backup in which an entry had been removed (three stitched bands), restored by id; when the link leads to a sentinel directory that directory is given the sub-directory layout of the directory it replaces; the subtree is a third of the time exactly the replaced directory; in a quarter of the cases one of the first ten storage operations of the restore fails). Second phase when a directory was replaced by a symlink: the oldest version, in which it is a directory again, is restored with overwrite over the first restore, and the outside snapshot is compared again. Oracle: recursive lstat+content snapshot (mode, owner, mtime, ctime, inode) of the whole sandbox outside the destination is identical before and after; a pre-populated destination without overwrite must be refused and left identical. Non-trivial = a restored symlink resolves to a sentinel, or the refusal case with a non-empty version; distinct by case hash; since round 7 two cases of five put a second symlink beside the new one, named like it plus a suffix starting with a byte below '/' (.bak, -1, ' x', !), and the second phase also restores only the replaced directory with overwrite",
        assumptions: &[
            "pre-populated destinations contain only plain files and directories (a hostile destination containing symlinks is outside the statement)",
            "runs as root, so permission errors cannot mask a write-through",
        ],
        cases: |t| t.pick(20_000, 200_000),
        strategy,
        run,
        enumerate: None,
        exhaustive: |_| false,
        max_shrink_iters: 400,
    }
}
