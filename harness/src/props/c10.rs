//! C10 — damage to one stored file is contained and never crashes the tool.

use std::collections::BTreeSet;

use proptest::prelude::*;
use serde::{Deserialize, Serialize};
use serde_json::json;

use crate::damage::{self, Dmg, FileClass};
use crate::engine::{CaseResult, Cx, Failure, Prop, Tier};
use crate::format::{self, FileState};
use crate::history::{HistCfg, History, World, history_strategy};
use crate::ops::{self, OpReport, Sel};
use crate::scen::{self, copy_dir};
use crate::tree::{self, CmpOpts, TreeCfg};
use crate::{ensure, fail};

#[derive(Debug, Clone, Serialize, Deserialize)]
pub struct Case {
    pub hist: History,
    pub flips: Vec<u16>,
}

fn strategy(_tier: Tier) -> BoxedStrategy<Case> {
    let cfg = HistCfg {
        tree: TreeCfg { max_children: 4, ..scen::small_cfg() },
        max_ops: 5,
        interrupts: true,
        deletes: false,
    };
    // In a third of the cases the history is made to end with a complete backup (many small
    // hunks), a few edits, and a backup killed somewhere in the middle: an interrupted
    // version that continues in an older one.
    (
        history_strategy(cfg),
        prop::collection::vec(any::<u16>(), 3..8),
        prop::option::weighted(
            0.33,
            (
                1usize..=3,
                prop::collection::vec(crate::history::edit_strategy(cfg.tree), 0..4),
                3u16..16,
            ),
        ),
    )
        .prop_map(|(mut hist, flips, tail)| {
            if let Some((hunk, edits, k)) = tail {
                use crate::history::Op;
                let opts = crate::ops::Opts { hunk, block: 200, cap: 60 };
                hist.ops.truncate(3);
                hist.ops.push(Op::Backup(opts));
                if !edits.is_empty() {
                    hist.ops.push(Op::Mutate(edits));
                }
                hist.ops.push(Op::BackupInterrupted { opts, k, torn: false });
                // (stitching walks back one id at a time: below b9998 that is ten thousand
                // operations for every listing of every damage)
                hist.first_band_id = 0;
            }
            Case { hist, flips }
        })
        .boxed()
}

fn no_panic<T>(r: &OpReport<T>, what: &str, f: &str, d: Dmg) -> CaseResult {
    if let Some(p) = &r.panic {
        return Err(Failure::new(
            format!("C10/panic@{}", ops::panic_site(p)),
            format!("{what} panicked after {} of {f}: {p}", d.name()),
        ));
    }
    Ok(())
}

fn tick(what: &str) {
    if std::env::var("VERIF_TIMING").is_ok() {
        thread_local! { static LAST: std::cell::Cell<Option<std::time::Instant>> = const { std::cell::Cell::new(None) }; }
        LAST.with(|l| {
            let now = std::time::Instant::now();
            if let Some(prev) = l.get() {
                let dt = now - prev;
                if dt.as_millis() > 500 {
                    eprintln!("C10 tick {what}: {dt:?}");
                }
            }
            l.set(Some(now));
        });
    }
}

fn check_damage(w: &World, pre: &format::RawArchive, cx: &Cx, f: &str, d: Dmg, n: &mut u32) -> CaseResult {
    tick("enter");
    let class = damage::classify(f);
    let post = format::scan(&w.arch);
    let ids = ops::list_band_ids(&w.arch, &None);
    no_panic(&ids, "versions", f, d)?;
    // `conserve versions` proper (src/show.rs): plain, and with start time, duration and
    // tree size, which opens every band, reads its tail and walks its stitched index
    for (detail, newest_first) in [(false, false), (true, false), (true, true)] {
        let v = ops::show_versions(&w.arch, &None, detail, newest_first);
        no_panic(&v, "show_versions", f, d)?;
    }
    if class == FileClass::Header {
        // every operation must fail cleanly
        for (what, r) in [
            ("validate", ops::validate(&w.arch, &None, false).map(|_| ())),
            ("restore", ops::restore(&w.arch, &None, &cx.dir("r").join("h"), &Sel::LatestClosed, None, &[], false)),
        ] {
            no_panic(&r, what, f, d)?;
        }
        return Ok(());
    }
    // Termination bound for listings. A damaged hunk that still decompresses can decode to
    // more entries than it held (a flipped Snappy copy tag repeats a fragment), so the bound
    // is taken from both the pristine and the damaged archive as read independently, doubled.
    let total_entries: usize = 2
        * (pre.bands.values().map(|b| b.all_entries().len()).sum::<usize>()
            + post.bands.values().map(|b| b.all_entries().len()).sum::<usize>())
        + 64;
    tick("scan+ids");
    for (id, band) in &pre.bands {
        // listing
        let l = ops::list_entries(&w.arch, &None, &Sel::Band(*id), "/", &[], total_entries + 5);
        no_panic(&l, "ls", f, d)?;
        if let Ok(es) = &l.result {
            if cx.replay && es.len() > total_entries {
                eprintln!("listing of band {id} ({} entries, archive holds {total_entries}):", es.len());
                for e in es.iter().take(40) {
                    eprintln!("   {} {:?} mtime={}", e.apath, e.kind, e.mtime);
                }
            }
            ensure!(
                es.len() <= total_entries,
                "C10/listing-longer-than-archive",
                "band {id} after {} of {f}: listing does not end",
                d.name()
            );
        }
        tick("listing");
        // restore
        *n += 1;
        let dest = cx.dir("r").join(format!("b{n}"));
        let r = ops::restore(&w.arch, &None, &dest, &Sel::Band(*id), None, &[], false);
        no_panic(&r, "restore", f, d)?;
        // Does this version still open?  (head parses, as judged independently)
        let opens = matches!(post.bands.get(id).map(|b| &b.head), Some(FileState::Ok(v)) if v.get("start_time").map(|x| x.is_i64()).unwrap_or(false))
            // (a restore that gives up with an error still owes the untouched files when the
            // damaged file is a data block: no damage to a block keeps a version from opening)
            && (r.result.is_ok() || class == FileClass::Block);
        tick("restore");
        if opens && band.head.present_nonempty() {
            let snap = tree::snapshot(&dest);
            tick("snapshot");
            let reported = r.reported_error();
            let reference = format::ref_listing(pre, *id);
            let kinds: std::collections::BTreeMap<&str, &str> =
                reference.iter().map(|(e, _)| (e.apath.as_str(), e.kind.as_str())).collect();
            // the paths named (as `Apath("...")`) by the errors restore reported, each in its
            // debug-escaped form as printed
            let mut named_paths: std::collections::HashSet<String> = std::collections::HashSet::new();
            for m in &r.monitor_errors {
                let mut rest = m.as_str();
                while let Some(i) = rest.find("Apath(\"") {
                    let body = &rest[i + 6..];
                    let bytes = body.as_bytes();
                    let mut j = 1;
                    while j < bytes.len() {
                        match bytes[j] {
                            b'\\' => j += 2,
                            b'"' => break,
                            _ => j += 1,
                        }
                    }
                    let end = (j + 1).min(body.len());
                    named_paths.insert(body[..end].to_string());
                    rest = &body[end..];
                }
            }
            let hunk_of: std::collections::HashMap<&str, &str> =
                reference.iter().map(|(e, p)| (e.apath.as_str(), p.hunk_relpath.as_str())).collect();
            let last_hunk_of_incomplete: BTreeSet<&str> = pre
                .bands
                .values()
                .filter(|b| !b.tail.present_nonempty())
                .filter_map(|b| b.hunks.last().map(|h| h.relpath.as_str()))
                .collect();
            for (e, prov) in &reference {
                if e.kind != "File" {
                    continue;
                }
                // parents must be directories in this listing for the file to be restorable at all
                let mut ok_parents = true;
                let mut p = tree::parent_of(&e.apath);
                while let Some(pp) = p {
                    if pp != "/" && kinds.get(pp) != Some(&"Dir") {
                        ok_parents = false;
                    }
                    p = tree::parent_of(pp);
                }
                if !ok_parents {
                    continue;
                }
                // A file whose ancestor directory was recorded in the damaged hunk cannot be
                // placed without inventing its parents; it carries the "reported" obligation
                // (checked below through its siblings in that hunk), not the "exact" one.
                let mut orphaned = false;
                let mut p = tree::parent_of(&e.apath);
                while let Some(pp) = p {
                    if pp != "/" && hunk_of.get(pp) == Some(&f) {
                        orphaned = true;
                    }
                    p = tree::parent_of(pp);
                }
                let block_paths: Vec<String> =
                    e.addrs.iter().map(|a| format!("d/{}/{}", &a.hash[..3.min(a.hash.len())], a.hash)).collect();
                let touches_hunk = prov.hunk_relpath == f;
                let touches_block = block_paths.iter().any(|b| b == f);
                let touches_prov_band_meta = prov.band != *id && damage::band_of(f) == Some(prov.band) && matches!(class, FileClass::BandHead | FileClass::BandTail);
                if !touches_hunk && !touches_block {
                    if orphaned {
                        ensure!(
                            reported || snap.contains_key(&e.apath),
                            "C10/orphaned-file-dropped-silently",
                            "band {id}: {} lost its parent directory entry with {f} and was dropped without any error",
                            e.apath
                        );
                        continue;
                    }
                    if touches_prov_band_meta {
                        // The older band this entry is stitched from can no longer be interpreted
                        // (a deleted head makes it no version at all). If its head is still there
                        // but unreadable, losing the entry without a word is a silent drop.
                        if class == FileClass::BandHead && d != Dmg::Delete {
                            let exact = pre
                                .file_bytes(e)
                                .ok()
                                .map_or(false, |want| snap.get(&e.apath).and_then(|n| n.content.as_deref()) == Some(&want[..]));
                            ensure!(
                                reported || exact,
                                format!("C10/stitched-file-dropped-silently/bandhead/{}", d.name()),
                                "band {id}: {} comes from band {} whose head {f} is unreadable after {}; it was not restored and restore reported no error",
                                e.apath,
                                prov.band,
                                d.name()
                            );
                        }
                        continue;
                    }
                    // untouched: must restore exactly
                    let want = pre.file_bytes(e).map_err(|m| Failure::new("C10/harness/pre-damage-dangling", m))?;
                    match snap.get(&e.apath) {
                        Some(nd) if nd.content.as_deref() == Some(&want[..]) && nd.mtime == (e.mtime, e.mtime_nanos as i64) => {}
                        other => fail!(
                            format!("C10/untouched-file-not-restored-exactly/{}/{}", format!("{class:?}").to_lowercase(), d.name()),
                            "band {id}: {} has untouched hunk {} and blocks, but after {} of {f} it restored as {:?}",
                            e.apath,
                            prov.hunk_relpath,
                            d.name(),
                            other.map(|n| (n.kind, n.content.as_ref().map(|c| c.len()), n.mtime))
                        ),
                    }
                } else {
                    // hunk or block missing / undecodable (judged independently) => an error must be reported
                    let gone = if touches_hunk {
                        if d == Dmg::Delete && last_hunk_of_incomplete.contains(f) {
                            false // indistinguishable from an earlier interruption: legal state
                        } else {
                            match post.bands.get(&prov.band).and_then(|b| b.hunks.iter().find(|h| h.relpath == f)) {
                                None => true,
                                Some(h) => h.entries.is_err(),
                            }
                        }
                    } else {
                        let hash = f.rsplit('/').next().unwrap();
                        match post.blocks.get(hash) {
                            None => true,
                            Some(b) => b.content.is_err() || !b.hash_ok,
                        }
                    };
                    if touches_block && !touches_hunk {
                        // per file: restored with other bytes than recorded => an error naming it
                        if let Ok(want) = pre.file_bytes(e) {
                            let got = snap.get(&e.apath).and_then(|n| n.content.clone());
                            let named = named_paths.contains(&format!("{:?}", e.apath));
                            if got.as_deref() != Some(&want[..]) {
                                ensure!(
                                    named,
                                    format!("C10/file-lost-or-altered-silently/block/{}", d.name()),
                                    "band {id}: {} did not restore to its recorded content (block {f} damaged by {}) and no reported error names it: {:?}",
                                    e.apath,
                                    d.name(),
                                    r.monitor_errors
                                );
                            }
                        }
                    }
                    if gone {
                        let what = if touches_hunk { "hunk" } else { "block" };
                        ensure!(
                            reported,
                            format!("C10/lost-file-not-reported/{what}/{}", d.name()),
                            "band {id}: {} depends on {f}, which is now missing or undecodable after {}, but restore reported no error ({})",
                            e.apath,
                            d.name(),
                            r.describe()
                        );
                    }
                }
            }
        }
        tick("per-entry checks");
        crate::engine::force_remove(&dest);
    }
    tick("remove");
    for quick in [false, true] {
        let v = ops::validate(&w.arch, &None, quick);
        no_panic(&v, "validate", f, d)?;
    }
    tick("validate");
    // a new backup, and its restore
    let b = ops::backup(&w.arch, &None, &w.src, ops::Opts { hunk: 3, block: 200, cap: 100 }, &[]);
    tick("backup");
    no_panic(&b, "backup", f, d)?;
    *n += 1;
    let dest = cx.dir("r").join(format!("n{n}"));
    if d.is_removal_or_empty() {
        ensure!(
            b.result.is_ok(),
            format!("C10/backup-after-removal-failed/{}", format!("{class:?}").to_lowercase()),
            "after {} of {f} a new backup failed: {}",
            d.name(),
            b.describe()
        );
        let r = ops::restore(&w.arch, &None, &dest, &Sel::LatestClosed, None, &[], false);
        no_panic(&r, "restore of the new version", f, d)?;
        ensure!(r.clean(), "C10/restore-after-removal-error", "after {} of {f}: {}", d.name(), r.describe());
        if let Some((field, msg)) = tree::first_diff(&tree::expected(&w.tree), &tree::snapshot(&dest), CmpOpts::restore()) {
            fail!(format!("C10/restore-after-removal-diff/{field}"), "after {} of {f}: {msg}", d.name());
        }
    } else if b.result.is_ok() {
        let r = ops::restore(&w.arch, &None, &dest, &Sel::Latest, None, &[], false);
        no_panic(&r, "restore of the new version", f, d)?;
    }
    crate::engine::force_remove(&dest);
    Ok(())
}

fn run(case: &Case, cx: &mut Cx) -> CaseResult {
    let t_case = std::time::Instant::now();
    let mut w = World::for_history(&cx.scratch, &case.hist);
    for op in &case.hist.ops {
        let _ = w.apply(op);
    }
    std::fs::create_dir_all(cx.dir("r")).unwrap();
    let pristine = cx.dir("pristine");
    copy_dir(&w.arch, &pristine);
    let pre = format::scan(&pristine);
    let files = format::all_files(&pristine);
    let referenced: BTreeSet<String> = pre
        .referenced_hashes(pre.bands.keys().copied())
        .into_iter()
        .collect();
    let only = cx.only_inner.clone();
    let mut evals = 0u64;
    let mut nontrivial = 0u64;
    let mut n = 0u32;
    let mut plan: Vec<(&String, Dmg)> = vec![];
    for f in &files {
        let class = damage::classify(f);
        if class == FileClass::Other {
            continue;
        }
        let mut dmgs: Vec<Dmg> = Dmg::BASIC.to_vec();
        dmgs.extend(case.flips.iter().map(|f| Dmg::Flip(*f)));
        if class == FileClass::Block {
            // blocks get extra flips near the end of the file (literal bytes of the last chunk
            // often still decompress, which is what slips past a missing hash check)
            dmgs.extend(case.flips.iter().map(|f| Dmg::Flip(0xF000 | (*f >> 4))));
        }
        for d in dmgs {
            if class == FileClass::Header && d != Dmg::Garbage {
                continue; // "other than the archive header": only checked for clean failure once
            }
            plan.push((f, d));
        }
    }
    if cx.tier == Tier::Quick && only.is_none() {
        // quick: an evenly spaced third of the (file, damage) pairs, at most 48 per archive;
        // the offset rotates with the archive so that all damage kinds are covered overall
        let off = files.len() % 3;
        let full = plan.clone();
        plan = plan.into_iter().skip(off).step_by(3).collect();
        // (an interrupted version above four-digit ids: when the damage hides the band below
        // it, stitching walks back one id at a time, ten thousand operations per listing)
        let costly = pre.bands.keys().next().map_or(false, |m| *m >= 1000) && pre.bands.values().any(|b| !b.is_closed());
        plan = scen::thin(&plan, if costly { 12 } else { 48 });
        // ... plus, never thinned away: where an interrupted version continues in an older
        // band, that band's hunk at the resume point, the hunk after it and its head
        let mut targeted: Vec<(String, Dmg)> = vec![];
        for (id, band) in &pre.bands {
            if band.is_closed() || !band.head.present_nonempty() {
                continue;
            }
            let reference = format::ref_listing(&pre, *id);
            let own = band.all_entries().len();
            if let Some((_, prov)) = reference.get(own) {
                if let Some(older) = pre.bands.get(&prov.band) {
                    if let Some(pos) = older.hunks.iter().position(|h| h.relpath == prov.hunk_relpath) {
                        for h in older.hunks.iter().skip(pos).take(2) {
                            targeted.push((h.relpath.clone(), Dmg::Delete));
                            targeted.push((h.relpath.clone(), Dmg::Garbage));
                        }
                    }
                    let head = format!("{}/BANDHEAD", format::band_dirname(prov.band));
                    targeted.push((head.clone(), Dmg::Garbage));
                    targeted.push((head, Dmg::TruncateHalf));
                }
            }
        }
        if std::env::var("VERIF_TIMING").is_ok() {
            eprintln!("C10 targeted: {targeted:?}");
        }
        for (tf, td) in targeted {
            if let Some((f, d)) = full.iter().find(|(f, d)| **f == tf && *d == td) {
                if !plan.iter().any(|(pf, pd)| pf == f && pd == d) {
                    plan.push((*f, *d));
                }
            }
        }
    }
    {
        for (f, d) in plan {
            let class = damage::classify(f);
            let inner = json!({"file": f, "damage": d});
            if only.as_ref().map_or(false, |o| *o != inner) {
                continue;
            }
            crate::engine::heartbeat();
            crate::engine::force_remove(&w.arch);
            copy_dir(&pristine, &w.arch);
            if !damage::apply(&w.arch, f, d) {
                continue;
            }
            evals += 1;
            let is_ref = match class {
                FileClass::Block => referenced.contains(f.rsplit('/').next().unwrap()),
                FileClass::Hunk | FileClass::BandHead | FileClass::BandTail => true,
                _ => false,
            };
            if is_ref {
                nontrivial += 1;
            }
            if let Err(fl) = check_damage(&w, &pre, cx, f, d, &mut n) {
                cx.inner_failure(fl.with_inner(inner))?;
            }
        }
    }
    if std::env::var("VERIF_TIMING").is_ok() {
        eprintln!("C10 case: {:?} evals={evals} files={} bands={:?} first={}", t_case.elapsed(), files.len(), pre.bands.keys().collect::<Vec<_>>(), case.hist.first_band_id);
    }
    cx.add_evals(evals);
    cx.inner_nontrivial += nontrivial;
    cx.label_if(pre.bands.len() >= 2, "2+bands");
    cx.label_if(pre.bands.values().any(|b| !b.is_closed()), "has-incomplete-band");
    Ok(())
}

/// Scale probes (see probes.rs): damage inside an index of more than 10 000 hunks, and a
/// bit flip inside a block of several MiB.
fn enumerate(_tier: Tier, idx: u32, of: u32, cx: &mut Cx) -> CaseResult {
    if !crate::probes::mine(idx, of) {
        return Ok(());
    }
    // --- many hunks
    let (opts, tree) = crate::probes::many_hunks_tree(10_012);
    let sub = cx.dir("many-hunks");
    std::fs::create_dir_all(sub.join("r")).unwrap();
    let w = World::new(&sub, &tree);
    let b = ops::backup(&w.arch, &None, &w.src, opts, &[]);
    ensure!(!ops::backup_reported_error(&b), "C10/probe-setup", "{}", b.describe());
    let pristine = sub.join("pristine");
    copy_dir(&w.arch, &pristine);
    let pre = format::scan(&pristine);
    let band = &pre.bands[&0];
    ensure!(band.hunks.len() > 10_001, "C10/harness/probe-too-small", "{} hunks", band.hunks.len());
    let mut n = 0u32;
    for (hunk_no, d) in [(9_999usize, Dmg::Delete), (10_000, Dmg::Delete), (10_001, Dmg::Garbage), (5, Dmg::Truncate0)] {
        crate::engine::heartbeat();
        let f = band.hunks[hunk_no].relpath.clone();
        let lost: Vec<String> = band.hunks[hunk_no].entries.as_ref().unwrap().iter().map(|e| e.apath.clone()).collect();
        crate::engine::force_remove(&w.arch);
        copy_dir(&pristine, &w.arch);
        ensure!(damage::apply(&w.arch, &f, d), "C10/harness/probe", "damage did not apply");
        n += 1;
        let dest = sub.join("r").join(format!("p{n}"));
        let r = ops::restore(&w.arch, &None, &dest, &Sel::Band(0), None, &[], false);
        no_panic(&r, "restore", &f, d)?;
        ensure!(
            r.reported_error(),
            format!("C10/lost-file-not-reported/hunk/{}/probe-many-hunks", d.name()),
            "{f} ({}) holds {lost:?}; restore of the 10 000-hunk version reported nothing",
            d.name()
        );
        let snap = tree::snapshot(&dest);
        let mut want = tree::expected(&tree);
        for l in &lost {
            want.remove(l);
        }
        let got: tree::Snapshot = snap.into_iter().filter(|(p, _)| !lost.contains(p)).collect();
        crate::engine::force_remove(&dest);
        if let Some((field, msg)) = tree::first_diff(&want, &got, CmpOpts { root_meta: true, dir_mtime: false, identity: false, mtime: true }) {
            fail!(
                format!("C10/untouched-file-not-restored-exactly/hunk/{}/probe-many-hunks/{field}", d.name()),
                "after {} of {f}: {msg}",
                d.name()
            );
        }
        let v = ops::validate(&w.arch, &None, true);
        no_panic(&v, "validate", &f, d)?;
        ensure!(
            v.reported_error(),
            format!("C10/probe-many-hunks/validate-silent/{}", d.name()),
            "quick validate silent after {} of {f}",
            d.name()
        );
        cx.add_evals(1);
        cx.inner_nontrivial += 1;
    }
    crate::engine::force_remove(&sub);
    // --- big blocks: a bit flip in the middle of a 6 MiB block that still decompresses
    let (opts, tree) = crate::probes::big_blocks_tree();
    let sub = cx.dir("big-blocks");
    std::fs::create_dir_all(sub.join("r")).unwrap();
    let w = World::new(&sub, &tree);
    let b = ops::backup(&w.arch, &None, &w.src, opts, &[]);
    ensure!(!ops::backup_reported_error(&b), "C10/probe-setup", "{}", b.describe());
    let pristine = sub.join("pristine");
    copy_dir(&w.arch, &pristine);
    let pre = format::scan(&pristine);
    let big = pre.bands[&0].all_entries().into_iter().find(|e| e.apath == "/big6m").unwrap().clone();
    let f = format!("d/{}/{}", &big.addrs[0].hash[..3], big.addrs[0].hash);
    for frac in [0x8000u16, 0x4321, 0xF00F] {
        crate::engine::heartbeat();
        crate::engine::force_remove(&w.arch);
        copy_dir(&pristine, &w.arch);
        let d = Dmg::Flip(frac);
        ensure!(damage::apply(&w.arch, &f, d), "C10/harness/probe", "flip did not apply");
        n += 1;
        let dest = sub.join("r").join(format!("b{n}"));
        let r = ops::restore(&w.arch, &None, &dest, &Sel::Band(0), None, &[], false);
        no_panic(&r, "restore", &f, d)?;
        let got = std::fs::read(dest.join("big6m")).ok();
        let want = tree::content_bytes(3, 6 << 20);
        let named = r.monitor_errors.iter().any(|m| m.contains("Apath(\"/big6m\")"));
        crate::engine::force_remove(&dest);
        ensure!(
            got.as_deref() == Some(&want[..]) || named,
            "C10/file-lost-or-altered-silently/block/bitflip/probe-big-blocks",
            "a bit flip (position fraction {frac:#x}) in the 6 MiB block of /big6m: the file did not restore to its content and no reported error names it ({})",
            r.describe()
        );
        cx.add_evals(1);
        cx.inner_nontrivial += 1;
    }
    crate::engine::force_remove(&sub);

    // --- one index hunk of more than 32 MiB (10 000 files with 3.3 KB paths): one block deleted
    {
        crate::engine::heartbeat();
        let (opts, tree) = crate::probes::big_hunk_tree();
        let sub = cx.dir("big-hunk");
        std::fs::create_dir_all(sub.join("r")).unwrap();
        let cx2 = crate::engine::sub_cx(cx, sub.clone());
        let w = World::new(&sub, &tree);
        let b = ops::backup(&w.arch, &None, &w.src, opts, &[]);
        ensure!(!ops::backup_reported_error(&b), "C10/probe-setup", "{}", b.describe());
        let mut w = w;
        w.bands.insert(0, crate::history::BandState::Complete(tree.clone()));
        let pre = format::scan(&w.arch);
        if let Some(victim) = pre.blocks.values().next().map(|b| b.relpath.clone()) {
            ensure!(damage::apply(&w.arch, &victim, Dmg::Delete), "C10/harness/probe", "no damage");
            crate::engine::heartbeat();
            let mut n = 0u32;
            check_damage(&w, &pre, &cx2, &victim, Dmg::Delete, &mut n).map_err(|mut f| {
                f.signature = format!("{}/probe-big-hunk", f.signature);
                f
            })?;
            cx.add_evals(1);
            cx.inner_nontrivial += 1;
        }
        crate::engine::force_remove(&sub);
    }

    // --- one combined block shared by 1100 files that are consecutive in the index, deleted:
    // each of them is a reported failure, and however many fail in a row, the untouched files
    // that sort after them restore exactly
    {
        crate::engine::heartbeat();
        let m = crate::probes::plain_meta();
        let mut tree = tree::Tree::empty_root(tree::Meta { mode: 0o755, ..m });
        for d in ["/a", "/b"] {
            tree.0.insert(d.to_string(), tree::Node { kind: tree::Kind::Dir, meta: tree::Meta { mode: 0o755, ..m } });
        }
        for i in 0..1100u32 {
            tree.0.insert(format!("/a/s{i:04}"), tree::Node { kind: tree::Kind::File { pool: 2 + (i % 6) as u8, len: 20 + i % 50 }, meta: m });
        }
        for i in 0..5u32 {
            tree.0.insert(format!("/b/large{i}"), tree::Node { kind: tree::Kind::File { pool: 3 + i as u8, len: 5000 + i }, meta: m });
        }
        let opts = crate::ops::Opts { hunk: 100_000, block: 1 << 20, cap: 100 };
        let sub = cx.dir("many-files-one-block");
        std::fs::create_dir_all(sub.join("r")).unwrap();
        let cx2 = crate::engine::sub_cx(cx, sub.clone());
        let mut w = World::new(&sub, &tree);
        let b = ops::backup(&w.arch, &None, &w.src, opts, &[]);
        ensure!(!ops::backup_reported_error(&b), "C10/probe-setup", "{}", b.describe());
        w.bands.insert(0, crate::history::BandState::Complete(tree.clone()));
        let pre = format::scan(&w.arch);
        // the block that /a/s0000 lies in
        let victim = pre.bands[&0]
            .all_entries()
            .into_iter()
            .find(|e| e.apath == "/a/s0000")
            .and_then(|e| e.addrs.first().map(|a| format!("d/{}/{}", &a.hash[..3], a.hash)));
        if let Some(victim) = victim {
            ensure!(damage::apply(&w.arch, &victim, Dmg::Delete), "C10/harness/probe", "no damage");
            let mut n = 0u32;
            check_damage(&w, &pre, &cx2, &victim, Dmg::Delete, &mut n).map_err(|mut f| {
                f.signature = format!("{}/probe-many-files-one-block", f.signature);
                f
            })?;
            cx.add_evals(1);
            cx.inner_nontrivial += 1;
        }
        crate::engine::force_remove(&sub);
    }

    // --- the follow-up backup made by the SAME opened archive value that made the first
    // one (a long-running program): block files deleted or emptied in between
    let m = crate::probes::plain_meta();
    let mut t = tree::Tree::empty_root(tree::Meta { mode: 0o755, ..m });
    for (name, pool, len) in [("a", 2u8, 300u32), ("b", 3, 5000), ("c", 4, 40), ("d", 5, 1), ("e", 6, 900)] {
        t.0.insert(format!("/{name}"), tree::Node { kind: tree::Kind::File { pool, len }, meta: m });
    }
    for (variant, empty_them, only_first) in [("delete-all", false, false), ("empty-all", true, false), ("delete-one", false, true), ("empty-one", true, true)] {
        crate::engine::heartbeat();
        let sub = cx.dir("same-handle");
        crate::engine::force_remove(&sub);
        std::fs::create_dir_all(&sub).unwrap();
        let w = World::new(&sub, &t);
        let arch = w.arch.clone();
        let between = Box::new(move || {
            let blocks: Vec<String> = format::scan(&arch).blocks.values().map(|b| b.relpath.clone()).collect();
            for (i, rel) in blocks.iter().enumerate() {
                if only_first && i > 0 {
                    break;
                }
                if empty_them {
                    std::fs::write(arch.join(rel), b"").unwrap();
                } else {
                    std::fs::remove_file(arch.join(rel)).unwrap();
                }
            }
        });
        let r = ops::two_backups_one_handle(&w.arch, &w.src, ops::Opts { hunk: 3, block: 1000, cap: 100 }, between);
        ensure!(r.panic.is_none(), format!("C10/backup-panic/probe-same-handle-{variant}"), "{}", r.describe());
        ensure!(
            r.result.is_ok(),
            format!("C10/backup-after-removal-failed/probe-same-handle-{variant}"),
            "a second backup through the archive value that made the first one failed after its block files were removed/emptied: {}",
            r.describe()
        );
        let dest = sub.join("restored");
        let rr = ops::restore(&w.arch, &None, &dest, &Sel::LatestClosed, None, &[], false);
        let diff = tree::first_diff(&tree::expected(&t), &tree::snapshot(&dest), CmpOpts::restore());
        ensure!(
            rr.clean() && diff.is_none(),
            format!("C10/restore-after-removal-diff/probe-same-handle-{variant}"),
            "the version written after the damage by the same archive value does not restore exactly: {} {:?}",
            rr.describe(),
            diff
        );
        crate::engine::force_remove(&sub);
        cx.add_evals(1);
        cx.inner_nontrivial += 1;
    }
    Ok(())
}

pub fn prop() -> Prop<Case> {
    Prop {
        id: "C10",
        level: "fault_enumeration",
        rule: "case = archive from a generated history of <=5 ops (incl. interrupted backups; a third of the histories are made to end with a complete backup in small hunks, edits, and a backup killed in the middle) + 3-7 bit-flip positions; inner domain enumerated: every stored file (heads, tails, hunks, blocks; the archive header only for a clean-failure probe) x {delete, truncate 0, truncate half, garbage of equal length} + the generated bit flips in every file (thorough: all pairs; quick: an evenly spaced third, at most 48 per archive, plus — never thinned away — deletion and garbling of the older band's hunk at the resume point of every interrupted version and of the hunk after it, and garbling/halving of that band's head). For each: versions, ls and restore of every band, validate (full, quick), a new backup and its restore must return without panic (listing length bounded by the archive's entry count; per-case watchdog for hangs). In every band whose head still parses and whose restore ran: every file entry of the pre-damage reference listing whose own hunk file and block files are not the damaged file (and, for entries stitched from an older band, whose band's head/tail are not the damaged file) must restore byte- and mtime-exact; an entry stitched from an older band whose head is still present but unreadable must restore exactly or restore must report an error; every file entry whose hunk or block is, by the independent decoder, now missing or undecodable requires that restore reported an error, and a file whose block was damaged and which does not restore to its recorded content must be named by a reported error (per file, so that an error for one file of a shared block does not excuse silently altered siblings) (deletion of the last hunk of an incomplete band is exempt: indistinguishable from an earlier interruption). After delete/truncate-0 a new backup must succeed and restore the source exactly. Non-trivial inner = the damaged file is referenced by at least one version; inner values distinct by construction. Fixed scale probes per run: hunks 9 999, 10 000, 10 001 and 5 of a 10 015-hunk version deleted/garbled/emptied (restore must report, restore everything else exactly, quick validate must report), three bit flips inside a 6 MiB block; one block deleted from a version whose single index hunk exceeds 32 MiB; and the follow-up backup made through the same opened archive value as the first one after all / one of its block files were deleted / emptied must complete and restore exactly; since round 6 `conserve versions` proper (show_versions plain and with start time, duration and tree size, oldest and newest first) runs after every damage; since round 7 a probe with one combined block shared by 1100 consecutive files deleted (five untouched files sort after them), and the per-file obligations hold also when a restore returns an error after damage to a block",
        assumptions: &[
            "'reported an error' is lenient: Err, Monitor error, or ERROR-level tracing event",
            "hunks altered but still decodable carry only the no-crash obligation",
        ],
        cases: |t| t.pick(64, 250),
        strategy,
        run,
        enumerate: Some(enumerate),
        exhaustive: |_| false,
        max_shrink_iters: 12,
    }
}
