//! C04 — storage errors never make the archive record wrong content or a false success.

use std::collections::BTreeMap;

use proptest::prelude::*;
use serde::{Deserialize, Serialize};
use serde_json::json;

use crate::engine::{CaseResult, Cx, Failure, Prop, Tier};
use crate::format;
use crate::hooks::{Key, Kind as EK, Logged, Plan, V};
use crate::ops::{self, Sel};
use crate::scen::{self, Base, Scenario};
use crate::tree::{self, CmpOpts, Kind};
use crate::{ensure, fail};

#[derive(Debug, Clone, Serialize, Deserialize)]
pub struct Case {
    pub sc: Scenario,
    /// Random multi-fault plans: each a list of (position in the trace as a 16-bit fraction, kind).
    pub multi: Vec<Vec<(u16, u8)>>,
    /// If set: before the backup, an empty file sits at the path of the i-th block this
    /// backup is going to write (what a killed write of the same content leaves behind).
    #[serde(default)]
    pub leftover: Option<u16>,
    /// If set: before the backup, the i-th block file that an earlier version refers to is
    /// deleted (an archive that is already damaged when the storage errors strike). Entries
    /// of the *earlier* versions that name that block are then dangling by construction and
    /// are not judged; everything the new version records is.
    #[serde(default)]
    pub missing: Option<u16>,
}

fn strategy(tier: Tier) -> BoxedStrategy<Case> {
    let n_multi = tier.pick(6usize, 40usize);
    (
        scen::scenario_strategy(true, false),
        prop::collection::vec(
            prop_oneof![
                3 => prop::collection::vec((any::<u16>(), 0u8..4), 1..8),
                // dense plans: a sizeable fraction of the operations fail
                1 => prop::collection::vec((any::<u16>(), 0u8..4), 8..40),
            ],
            n_multi..=n_multi,
        ),
        prop::option::weighted(0.4, any::<u16>()),
        prop::option::weighted(0.25, any::<u16>()),
    )
        .prop_map(|(sc, multi, leftover, missing)| Case { sc, multi, leftover, missing })
        .boxed()
}

fn kind_of(i: u8) -> EK {
    EK::ALL[i as usize % 4]
}

/// Run one backup under `plan` from the pristine state and judge it.
fn check_plan(base: &Base, sc: &Scenario, cx: &Cx, plan: Plan, n: &mut u32) -> CaseResult {
    check_plan_with(base, sc, cx, plan, n, None)
}

/// `gone`: hash of a block that was deleted before the backup (see `Case::missing`).
fn check_plan_with(base: &Base, sc: &Scenario, cx: &Cx, plan: Plan, n: &mut u32, gone: Option<&str>) -> CaseResult {
    let w = &base.world;
    base.reset();
    let before = format::raw_tree(&w.arch);
    let prev_last = format::scan(&w.arch).bands.keys().copied().max();
    let (r, ctl) = base.backup(sc.opts, plan);
    if let Some(p) = &r.panic {
        fail!(format!("C04/backup-panic@{}", ops::panic_site(p)), "backup panicked under an injected storage error: {p}");
    }
    ensure!(ctl.triggered(), "C04/harness/fault-not-reached", "plan did not trigger");
    // earlier versions untouched
    let after = format::raw_tree(&w.arch);
    for (p, bytes) in &before {
        if p == "GC_LOCK" {
            continue;
        }
        match after.get(p) {
            Some(b) if b == bytes => {}
            Some(_) if bytes.is_empty() && p.starts_with("d/") => {} // an empty leftover may be completed
            Some(_) => fail!("C04/existing-file-modified", "{p} changed during a failing backup"),
            None => fail!("C04/existing-file-removed", "{p} disappeared during a failing backup"),
        }
    }
    // every recorded file entry gives exactly that file's bytes
    let post = format::scan(&w.arch);
    let new_id = post.bands.keys().copied().max().filter(|m| prev_last.map_or(true, |p| *m > p));
    let mut sources: BTreeMap<u32, &tree::Tree> = w.complete_bands().into_iter().collect();
    if let Some(id) = new_id {
        sources.insert(id, &w.tree);
    }
    for (id, band) in &post.bands {
        for e in band.all_entries() {
            if e.kind != "File" {
                continue;
            }
            if Some(*id) != new_id && gone.map_or(false, |g| e.addrs.iter().any(|a| a.hash == g)) {
                continue; // an earlier version's entry that names the block removed beforehand
            }
            let bytes = match post.file_bytes(e) {
                Ok(b) => b,
                Err(m) => fail!("C04/dangling-reference", "band {id} {}: {m}", e.apath),
            };
            if let Some(src) = sources.get(id) {
                match src.0.get(&e.apath).map(|n| &n.kind) {
                    Some(Kind::File { pool, len }) => {
                        if bytes != tree::content_bytes(*pool, *len) {
                            let class = if *id == new_id.unwrap_or(u32::MAX) { "new-band" } else { "old-band" };
                            fail!(
                                format!("C04/recorded-wrong-content/{class}"),
                                "band {id} {}: the recorded addresses give {} bytes that are not this file's content ({} bytes)",
                                e.apath,
                                bytes.len(),
                                len
                            );
                        }
                    }
                    other => fail!("C04/recorded-entry-not-in-source", "band {id} {}: source has {other:?}", e.apath),
                }
            }
        }
    }
    // complete success must mean a complete, exact version
    let reported = ops::backup_reported_error(&r);
    if !reported {
        let id = new_id.ok_or_else(|| Failure::new("C04/success-without-version", "backup reported success but no new version exists"))?;
        ensure!(
            post.bands[&id].tail.present_nonempty(),
            "C04/success-without-tail",
            "backup reported complete success but band {id} is not closed"
        );
    }
    if let Some(id) = new_id {
        if post.bands[&id].tail.present_nonempty() {
            *n += 1;
            let dest = cx.dir("r").join(format!("d{n}"));
            let rr = ops::restore(&w.arch, &None, &dest, &Sel::Band(id), None, &[], false);
            let exact = rr.clean()
                && tree::first_diff(&tree::expected(&w.tree), &tree::snapshot(&dest), CmpOpts::restore()).is_none();
            let detail = if rr.clean() {
                tree::first_diff(&tree::expected(&w.tree), &tree::snapshot(&dest), CmpOpts::restore())
                    .map(|(_, m)| m)
                    .unwrap_or_default()
            } else {
                rr.describe()
            };
            crate::engine::force_remove(&dest);
            ensure!(
                exact || reported,
                "C04/false-success",
                "backup reported complete success (Ok, no monitor error, stats.errors=0) but the version does not restore exactly: {detail}"
            );
        }
    }
    Ok(())
}

fn nontrivial_key(l: &Logged) -> bool {
    let p = &l.key.path;
    match l.key.verb {
        V::Write | V::CreateDir => p.starts_with("d/") || p.starts_with('b') || p == "d",
        V::Read => p.contains("/i/"),
        _ => false,
    }
}

fn run(case: &Case, cx: &mut Cx) -> CaseResult {
    let sc = &case.sc;
    let base = Base::build(&cx.scratch, sc);
    std::fs::create_dir_all(cx.dir("r")).unwrap();
    let mut trace = base.backup_trace(sc.opts);
    let mut has_leftover = false;
    if let Some(frac) = case.leftover {
        let block_writes: Vec<String> = trace
            .iter()
            .filter(|l| l.key.verb == V::Write && l.key.path.starts_with("d/"))
            .map(|l| l.key.path.clone())
            .collect();
        if !block_writes.is_empty() {
            let p = &block_writes[(frac as usize * block_writes.len()) >> 16];
            for root in [&base.pristine, &base.world.arch] {
                let f = root.join(p);
                std::fs::create_dir_all(f.parent().unwrap()).unwrap();
                std::fs::write(&f, b"").unwrap();
            }
            has_leftover = true;
            // the trace of the backup over this state (it now overwrites that file)
            trace = base.backup_trace(sc.opts);
        }
    }
    let mut gone: Option<String> = None;
    if let Some(frac) = case.missing {
        let pre = format::scan(&base.pristine);
        let mut hashes: Vec<String> = pre
            .bands
            .values()
            .flat_map(|b| b.all_entries().into_iter().flat_map(|e| e.addrs.iter().map(|a| a.hash.clone()).collect::<Vec<_>>()))
            .collect();
        hashes.sort();
        hashes.dedup();
        if !hashes.is_empty() {
            let h = hashes[(frac as usize * hashes.len()) >> 16].clone();
            let rel = format!("d/{}/{}", &h[..3], h);
            for root in [&base.pristine, &base.world.arch] {
                let _ = std::fs::remove_file(root.join(&rel));
            }
            gone = Some(h);
            trace = base.backup_trace(sc.opts);
        }
    }
    let gone = gone.as_deref();
    // (a basis reached by walking back over a wide id gap makes every run cost thousands of
    // operations: such scenarios get fewer plans in the quick tier)
    let long = trace.len() > 600;
    let keys: Vec<Logged> = if cx.tier == Tier::Quick { scen::thin(&trace, if long { 12 } else { 60 }) } else { trace.clone() };
    let only: Option<serde_json::Value> = cx.only_inner.clone();
    let mut n = 0u32;
    let mut evals = 0u64;
    let mut nontrivial = 0u64;
    for l in &keys {
        for kind in EK::ALL {
            let inner = json!({"key": l.key, "kind": kind});
            if let Some(o) = &only {
                if *o != inner {
                    continue;
                }
            }
            crate::engine::heartbeat();
            let res = check_plan_with(&base, sc, cx, Plan::FailAtKey { key: l.key.clone(), kind }, &mut n, gone);
            evals += 1;
            if nontrivial_key(l) {
                nontrivial += 1;
            }
            if let Err(f) = res {
                cx.inner_failure(f.with_inner(inner))?;
            }
        }
    }
    // Two errors in a row: the operation, and whatever the code does next about it (a retry,
    // a clean-up, the next file), for every write of the trace and every pair of kinds.
    let writes: Vec<&Logged> = trace.iter().filter(|l| l.key.verb == V::Write).collect();
    let writes = if cx.tier == Tier::Quick { scen::thin(&writes, if long { 2 } else { 8 }) } else { scen::thin(&writes, 40) };
    let t_pairs = std::time::Instant::now();
    let ev0 = evals;
    for l in writes {
        for k1 in EK::ALL {
            for k2 in EK::ALL {
                let m: BTreeMap<usize, EK> = [(l.index, k1), (l.index + 1, k2)].into_iter().collect();
                let inner = json!({"multi": m.iter().map(|(i, k)| (*i, *k)).collect::<Vec<_>>()});
                if let Some(o) = &only {
                    if *o != inner {
                        continue;
                    }
                }
                crate::engine::heartbeat();
                let res = check_plan_with(&base, sc, cx, Plan::FailAtIndices(m), &mut n, gone);
                evals += 1;
                nontrivial += 1;
                if let Err(f) = res {
                    cx.inner_failure(f.with_inner(inner))?;
                }
            }
        }
    }
    if std::env::var("VERIF_TIMING").is_ok() {
        eprintln!("C04 timing: singles+pairs trace={} pairs {} evals in {:?}", trace.len(), evals - ev0, t_pairs.elapsed());
    }
    for plan in &case.multi {
        let m: BTreeMap<usize, EK> = plan
            .iter()
            .map(|(frac, k)| (((*frac as usize) * trace.len().max(1)) >> 16, kind_of(*k)))
            .collect();
        let inner = json!({"multi": m.iter().map(|(i, k)| (*i, *k)).collect::<Vec<_>>()});
        if let Some(o) = &only {
            if *o != inner {
                continue;
            }
        }
        let res = check_plan_with(&base, sc, cx, Plan::FailAtIndices(m.clone()), &mut n, gone);
        evals += 1;
        if m.len() >= 2 {
            nontrivial += 1;
        }
        match res {
            Err(f) if f.signature == "C04/harness/fault-not-reached" => {}
            Err(f) => cx.inner_failure(f.with_inner(inner))?,
            Ok(()) => {}
        }
    }
    cx.add_evals(evals);
    cx.inner_nontrivial += nontrivial;
    cx.label_if(!base.world.bands.is_empty(), "has-previous-versions");
    cx.label_if(has_leftover, "zero-length-block-leftover");
    cx.label_if(gone.is_some(), "a-block-of-an-earlier-version-already-missing");
    let combined_flushes = trace.iter().filter(|l| l.key.verb == V::Write && l.key.path.starts_with("d/")).count();
    cx.label_if(combined_flushes >= 3, "3+block-writes");
    Ok(())
}

/// Scale probe (see probes.rs): single faults in a backup that writes 10 015 index hunks,
/// on the creation of the second index sub-directory and on the hunks around it.
fn enumerate(tier: Tier, idx: u32, of: u32, cx: &mut Cx) -> CaseResult {
    if !crate::probes::mine(idx, of) {
        return Ok(());
    }
    let (opts, tree) = crate::probes::many_hunks_tree(10_012);
    let sc = Scenario { initial: tree, prefix: vec![], edits: vec![], opts, id_spread: 1, headless_band: 0 };
    let sub = cx.dir("many-hunks");
    std::fs::create_dir_all(sub.join("r")).unwrap();
    let cx2 = crate::engine::sub_cx(cx, sub.clone());
    let base = Base::build(&sub, &sc);
    let key = |verb: V, path: &str| Key { verb, path: path.to_string(), occ: 0 };
    let mut plans = vec![
        (key(V::CreateDir, "b0000/i/00001"), EK::Other),
        (key(V::Write, "b0000/i/00001/000010000"), EK::AlreadyExists),
    ];
    if tier == Tier::Thorough {
        plans.push((key(V::Write, "b0000/i/00000/000009999"), EK::PermissionDenied));
        plans.push((key(V::CreateDir, "b0000/i/00001"), EK::NotFound));
        plans.push((key(V::Write, "b0000/BANDTAIL"), EK::Other));
    }
    let mut n = 0u32;
    for (k, kind) in plans {
        crate::engine::heartbeat();
        check_plan(&base, &sc, &cx2, Plan::FailAtKey { key: k.clone(), kind }, &mut n).map_err(|mut f| {
            f.signature = format!("{}/probe-many-hunks", f.signature);
            f.inner = json!({"key": k, "kind": kind});
            f
        })?;
        cx.add_evals(1);
        cx.inner_nontrivial += 1;
    }
    crate::engine::force_remove(&sub);

    // Data of MiB size through the same machinery: (a) eight files of 600 KiB, pairwise
    // identical, combined into blocks of 2 MiB; (b) three small files, one of 65 MiB + 1, two
    // more small files, default options. Every block write fails once.
    let m = crate::probes::plain_meta();
    let mut a = tree::Tree::empty_root(tree::Meta { mode: 0o755, ..m });
    for (i, pool) in [2u8, 3, 2, 3, 4, 5, 4, 5].iter().enumerate() {
        a.0.insert(format!("/b{i}"), tree::Node { kind: Kind::File { pool: *pool, len: 600 << 10 }, meta: m });
    }
    let mut b = tree::Tree::empty_root(tree::Meta { mode: 0o755, ..m });
    for (name, pool, len) in [("a1", 2u8, 100u32), ("a2", 3, 200), ("a3", 4, 300), ("big", 5, (65 << 20) + 1), ("z1", 6, 150), ("z2", 7, 250)] {
        b.0.insert(format!("/{name}"), tree::Node { kind: Kind::File { pool, len }, meta: m });
    }
    for (name, tree, opts, kinds) in [
        ("big-small-files", a, ops::Opts { block: 2 << 20, ..ops::Opts::defaults() }, EK::ALL.to_vec()),
        ("small-files-around-65-mib", b, ops::Opts::defaults(), vec![EK::PermissionDenied]),
    ] {
        let sc = Scenario { initial: tree, prefix: vec![], edits: vec![], opts, id_spread: 1, headless_band: 0 };
        let sub = cx.dir(name);
        std::fs::create_dir_all(sub.join("r")).unwrap();
        let cx3 = crate::engine::sub_cx(cx, sub.clone());
        let base = Base::build(&sub, &sc);
        crate::engine::heartbeat();
        let trace = base.backup_trace(sc.opts);
        let writes: Vec<Key> = trace.iter().filter(|l| l.key.verb == V::Write && l.key.path.starts_with("d/")).map(|l| l.key.clone()).collect();
        ensure!(writes.len() >= 2, "C04/harness/probe-too-small", "{name}: {} block writes", writes.len());
        for k in writes {
            for kind in &kinds {
                crate::engine::heartbeat();
                check_plan(&base, &sc, &cx3, Plan::FailAtKey { key: k.clone(), kind: *kind }, &mut n).map_err(|mut f| {
                    f.signature = format!("{}/probe-{name}", f.signature);
                    f.inner = json!({"key": k, "kind": kind});
                    f
                })?;
                cx.add_evals(1);
                cx.inner_nontrivial += 1;
            }
        }
        crate::engine::force_remove(&sub);
    }
    Ok(())
}

pub fn prop() -> Prop<Case> {
    Prop {
        id: "C04",
        level: "fault_enumeration",
        rule: "scenario as C03 (small blocks/caps so several combined-block flushes happen) generated by proptest, in 40% of the cases with an empty file already sitting at the path of one of the blocks the backup is going to write; inner domain enumerated per scenario: every operation of the logged storage trace of the backup (reads, lists, metadata, writes, create_dir; quick thins to <=60 evenly spaced) x {not-found, already-exists, permission-denied, other} as a single injected failure, plus generated multi-fault plans (1-7 failing positions, a quarter of them dense with 8-39). Oracle per plan: no panic; every file that existed before is byte-identical afterwards; every File entry the independent decoder finds in any band reassembles to exactly that path's bytes in the tree that band was made from (never dangling, never another file's); if the backup reports complete success (Ok, no monitor error, stats.errors==0) the band is closed and restores exactly; a closed band that does not restore exactly implies an error was reported. Non-trivial = the failing operation is a write/create_dir under d/ or the band directory, or a read of an index hunk, or a plan with >=2 faults; counted per (scenario, plan), distinct by construction. Fixed scale probe per run: a backup writing 10 015 index hunks with a fault on the creation of the second index sub-directory and on its first hunk (thorough: three more); since round 6 a quarter of the cases start with one block of an earlier version already deleted (entries of earlier versions naming it are not judged, everything the new version records is), and injected errors carry an io::Error cause like the local transport's; since round 8 two probes with MiB-sized data, every block write failing once: eight files of 600 KiB, pairwise identical, combined into 2 MiB blocks; and small files before and after a file of 65 MiB + 1 with default options",
        assumptions: &[
            "an injected failure has no side effect on the directory (the operation is not attempted)",
            "faults are injected at transport-operation granularity via the verif_hooks interceptor",
        ],
        cases: |t| t.pick(48, 400),
        strategy,
        run,
        enumerate: Some(enumerate),
        exhaustive: |_| false,
        max_shrink_iters: 60,
    }
}
