//! C15 — exclusions mean the same thing at backup, list and restore time.

use std::collections::BTreeSet;

use globset::GlobBuilder;
use proptest::prelude::*;
use serde::{Deserialize, Serialize};

use crate::engine::{CaseResult, Cx, Failure, Prop, Tier};
use crate::ops::{self, Opts, Sel};
use crate::tree::{self, Tree, TreeCfg};
use crate::{ensure, format};

#[derive(Debug, Clone, Serialize, Deserialize)]
pub struct Case {
    pub opts: Opts,
    pub tree: Tree,
    pub patterns: Vec<String>,
    /// If set, the archive that is backed up with the exclusions already holds a version of
    /// the same tree made with *these* patterns (possibly none): the version under test is
    /// then an incremental one over a basis that was filtered differently.
    #[serde(default)]
    pub basis_patterns: Option<Vec<String>>,
    /// Hand the patterns over in a pattern file (`Exclude::from_patterns_and_files`).
    #[serde(default)]
    pub via_file: bool,
}

#[derive(Debug, Clone)]
enum Comp {
    /// Base name of the i-th entry of the tree.
    Name(u16),
    Star,
    Question,
    PrefixStar(u16),
    StarSuffix(u16),
    Class(bool, u16),
    DoubleStar,
    Fixed(&'static str),
}

#[derive(Debug, Clone)]
struct PatSpec {
    anchored: bool,
    /// If set, start from the full path of the i-th entry (so anchored patterns hit).
    from_path: Option<u16>,
    /// Prefer a directory that has children as the path to start from.
    prefer_dir: bool,
    comps: Vec<Comp>,
    /// 0 = as is; 1 = trailing "/"; 2 = "**" glued to the end; 3 = trailing "/**"; 4 = trailing "*".
    ending: u8,
}

fn comp_strategy() -> BoxedStrategy<Comp> {
    prop_oneof![
        6 => any::<u16>().prop_map(Comp::Name),
        2 => Just(Comp::Star),
        1 => Just(Comp::Question),
        2 => any::<u16>().prop_map(Comp::PrefixStar),
        2 => any::<u16>().prop_map(Comp::StarSuffix),
        2 => (any::<bool>(), any::<u16>()).prop_map(|(n, i)| Comp::Class(n, i)),
        2 => Just(Comp::DoubleStar),
        1 => prop::sample::select(vec!["a", "*.txt", "a*", "?", ".*", "é*", "*b"]).prop_map(Comp::Fixed),
    ]
    .boxed()
}

fn pat_strategy() -> BoxedStrategy<PatSpec> {
    (
        any::<bool>(),
        prop::option::weighted(0.6, any::<u16>()),
        prop::bool::weighted(0.6),
        prop::collection::vec(comp_strategy(), 1..=3),
        prop_oneof![8 => Just(0u8), 1 => Just(1u8), 1 => Just(2u8), 1 => Just(3u8), 1 => Just(4u8)],
    )
        .prop_map(|(anchored, from_path, prefer_dir, comps, ending)| PatSpec {
            anchored,
            from_path,
            prefer_dir,
            comps,
            ending,
        })
        .boxed()
}

fn pick<'a>(v: &'a [String], i: u16) -> &'a str {
    &v[(i as usize * v.len()) >> 16]
}

fn first_char(s: &str) -> char {
    s.chars().next().unwrap()
}

fn last_char(s: &str) -> char {
    s.chars().last().unwrap()
}

fn is_plain(c: char) -> bool {
    !matches!(c, '*' | '?' | '[' | ']' | '{' | '}' | '\\' | '!' | '^' | '-')
}

fn resolve(spec: &PatSpec, tree: &Tree) -> Option<String> {
    let paths: Vec<String> = tree.0.keys().filter(|k| k.as_str() != "/").cloned().collect();
    if paths.is_empty() {
        return None;
    }
    let names: Vec<String> = paths.iter().map(|p| tree::base_name(p).to_string()).collect();
    let mut comps: Vec<String> = vec![];
    if let Some(i) = spec.from_path {
        // Use a real path's components, replacing some of them by the generated ones.
        let parents: Vec<String> = paths
            .iter()
            .filter(|p| tree.0[*p].is_dir() && paths.iter().any(|c| tree::parent_of(c) == Some(p.as_str())))
            .cloned()
            .collect();
        let p = if spec.prefer_dir && !parents.is_empty() { pick(&parents, i) } else { pick(&paths, i) };
        let real: Vec<&str> = p[1..].split('/').collect();
        for (j, r) in real.iter().enumerate() {
            match spec.comps.get(j) {
                Some(Comp::Name(_)) | None => comps.push(r.to_string()),
                Some(c) => comps.push(render(c, r, &names)),
            }
        }
    } else {
        for c in &spec.comps {
            comps.push(render(c, pick(&names, 0), &names));
        }
    }
    let mut body = comps.join("/");
    match spec.ending {
        1 => body.push('/'),
        2 => body.push_str("**"),
        3 => body.push_str("/**"),
        4 if !body.ends_with('*') => body.push('*'),
        _ => {}
    }
    let pat = if spec.anchored { format!("/{body}") } else { body };
    // Only patterns globset accepts, in both of conserve's expanded forms.
    for cand in [pat.clone(), format!("{pat}/**"), format!("**/{pat}")] {
        if GlobBuilder::new(&cand).literal_separator(true).build().is_err() {
            return None;
        }
    }
    Some(pat)
}

fn render(c: &Comp, real: &str, names: &[String]) -> String {
    match c {
        Comp::Name(i) => pick(names, *i).to_string(),
        Comp::Star => "*".into(),
        Comp::Question => "?".repeat(real.chars().count().max(1)),
        Comp::PrefixStar(i) => {
            let n = if real.is_empty() { pick(names, *i) } else { real };
            let c = first_char(n);
            if is_plain(c) { format!("{c}*") } else { "*".into() }
        }
        Comp::StarSuffix(i) => {
            let n = if real.is_empty() { pick(names, *i) } else { real };
            let c = last_char(n);
            if is_plain(c) { format!("*{c}") } else { "*".into() }
        }
        Comp::Class(neg, i) => {
            let n = pick(names, *i);
            let c = first_char(n);
            let rest: String = real.chars().skip(1).collect();
            let rest_ok = rest.chars().all(is_plain);
            if is_plain(c) && c != '/' && rest_ok {
                format!("[{}{c}z]{rest}", if *neg { "!" } else { "" })
            } else {
                "*".into()
            }
        }
        Comp::DoubleStar => "**".into(),
        Comp::Fixed(s) => s.to_string(),
    }
}

fn strategy(_tier: Tier) -> BoxedStrategy<Case> {
    let cfg = TreeCfg {
        max_children: 5,
        prefixy_names: false,
        ..TreeCfg::plain()
    };
    (
        tree::opts_tree_strategy(cfg),
        prop::collection::vec(pat_strategy(), 0..=4),
        prop::option::weighted(0.3, prop::collection::vec(pat_strategy(), 0..=3)),
        prop::bool::weighted(0.25),
    )
        .prop_map(|((opts, tree), specs, basis, via_file)| {
            let patterns = specs.iter().filter_map(|s| resolve(s, &tree)).collect();
            let basis_patterns = basis.map(|b| b.iter().filter_map(|s| resolve(s, &tree)).collect());
            Case { opts, tree, patterns, basis_patterns, via_file }
        })
        .boxed()
}

/// The oracle of DESIGN.md 4.7. Single-glob matching is delegated to globset.
pub struct Oracle {
    pats: Vec<(bool, globset::GlobMatcher)>,
}

impl Oracle {
    pub fn new(patterns: &[String]) -> Oracle {
        Oracle {
            pats: patterns
                .iter()
                .map(|p| {
                    (
                        p.starts_with('/'),
                        GlobBuilder::new(p)
                            .literal_separator(true)
                            .build()
                            .expect("pattern accepted at generation time")
                            .compile_matcher(),
                    )
                })
                .collect(),
        }
    }

    fn matches_one(&self, q: &str) -> bool {
        self.pats.iter().any(|(anchored, m)| {
            if *anchored {
                m.is_match(q)
            } else {
                // "matching at any depth": the whole path, or any suffix of it that
                // starts right after a '/' (this is what a leading "**/" means)
                m.is_match(q)
                    || q.char_indices()
                        .filter(|(_, c)| *c == '/')
                        .any(|(i, _)| m.is_match(&q[i + 1..]))
            }
        })
    }

    /// (excluded, excluded only through an ancestor)
    pub fn excluded(&self, p: &str) -> (bool, bool) {
        if self.matches_one(p) {
            return (true, false);
        }
        let mut q = p;
        while let Some(parent) = tree::parent_of(q) {
            if parent == "/" {
                break;
            }
            if self.matches_one(parent) {
                return (true, true);
            }
            q = parent;
        }
        (false, false)
    }
}

fn run(case: &Case, cx: &mut Cx) -> CaseResult {
    let src = cx.dir("src");
    let arch_full = cx.dir("arch_full");
    let arch_ex = cx.dir("arch_ex");
    tree::materialise(&case.tree, &src);
    for a in [&arch_full, &arch_ex] {
        let c = ops::create_archive(a);
        ensure!(c.clean(), "C15/create", "{}", c.describe());
    }
    let pats = &case.patterns;
    let oracle = Oracle::new(pats);
    let mut via_ancestor = false;
    let model: BTreeSet<String> = case
        .tree
        .0
        .keys()
        .filter(|p| p.as_str() != "/")
        .filter(|p| {
            let (ex, anc) = oracle.excluded(p);
            via_ancestor |= anc;
            !ex
        })
        .cloned()
        .collect();
    let all_below: usize = case.tree.0.len() - 1;

    // (1) backup with the exclusions, decoded independently; in some cases over a basis
    // version of the same tree that was made with other patterns
    let mut band_ex = 0u32;
    if let Some(bp) = &case.basis_patterns {
        let b = ops::backup(&arch_ex, &None, &src, case.opts, bp);
        ensure!(!ops::backup_reported_error(&b), "C15/backup-error", "basis, patterns {bp:?}: {}", b.describe());
        band_ex = 1;
    }
    struct FileRoute;
    impl Drop for FileRoute {
        fn drop(&mut self) {
            ops::set_exclude_file(None);
        }
    }
    let _route = FileRoute;
    if case.via_file {
        ops::set_exclude_file(Some(cx.dir("patterns.txt")));
    }
    let b = ops::backup(&arch_ex, &None, &src, case.opts, pats);
    ensure!(!ops::backup_reported_error(&b), "C15/backup-error", "patterns {pats:?}: {}", b.describe());
    let ra = format::scan(&arch_ex);
    let stored: BTreeSet<String> = ra
        .bands
        .get(&band_ex)
        .map(|b| b.all_entries().into_iter().map(|e| e.apath.clone()).filter(|p| p != "/").collect())
        .unwrap_or_default();

    // (2) list a full backup with the exclusions
    let b = ops::backup(&arch_full, &None, &src, case.opts, &[]);
    ensure!(!ops::backup_reported_error(&b), "C15/backup-error", "{}", b.describe());
    let l = ops::list_entries(&arch_full, &None, &Sel::Band(0), "/", pats, 10_000);
    ensure!(l.clean(), "C15/list-error", "patterns {pats:?}: {}", l.describe());
    let listed: BTreeSet<String> = l
        .result
        .unwrap()
        .iter()
        .map(|e| e.apath.to_string())
        .filter(|p| p != "/")
        .collect();

    // (3) restore the full backup with the exclusions
    std::fs::create_dir_all(cx.dir("r")).unwrap();
    let dest = cx.dir("r").join("dest");
    let r = ops::restore(&arch_full, &None, &dest, &Sel::Band(0), None, pats, false);
    ensure!(r.clean(), "C15/restore-error", "patterns {pats:?}: {}", r.describe());
    let restored: BTreeSet<String> = tree::snapshot(&dest).into_keys().filter(|p| p != "/").collect();

    let diff = |name: &str, got: &BTreeSet<String>| -> CaseResult {
        if *got != model {
            let extra: Vec<&String> = got.difference(&model).collect();
            let missing: Vec<&String> = model.difference(got).collect();
            return Err(Failure::new(
                format!("C15/{name}-differs-from-rule"),
                format!(
                    "patterns {pats:?}: {name} kept {extra:?} that the rule excludes and dropped {missing:?} that the rule keeps"
                ),
            ));
        }
        Ok(())
    };
    diff("backup", &stored)?;
    diff("list", &listed)?;
    diff("restore", &restored)?;

    let excluded_n = all_below - model.len();
    cx.label_if(pats.is_empty(), "no-patterns");
    cx.label_if(case.basis_patterns.is_some(), "over-a-basis-filtered-differently");
    cx.label_if(case.via_file && pats.iter().any(|p| ops::file_safe_pattern(p)), "patterns-from-a-file");
    cx.label_if(excluded_n > 0, "excludes-something");
    cx.label_if(via_ancestor, "excluded-via-ancestor");
    cx.label_if(pats.iter().any(|p| p.starts_with('/')), "anchored");
    cx.label_if(pats.iter().any(|p| p.contains("**")), "doublestar");
    cx.label_if(pats.iter().any(|p| p.contains('[')), "class");
    cx.label_if(pats.iter().any(|p| !p.is_ascii()), "non-ascii-pattern");
    cx.nontrivial = excluded_n > 0 && !model.is_empty() && via_ancestor;
    Ok(())
}

/// Scale probe (see probes.rs): the four-way agreement on a 10 012-file tree with one
/// entry per hunk, with name globs that hit entries in every hunk range.
fn enumerate(_tier: Tier, idx: u32, of: u32, cx: &mut Cx) -> CaseResult {
    if !crate::probes::mine(idx, of) {
        return Ok(());
    }
    let (opts, tree) = crate::probes::many_hunks_tree(10_012);
    let sub = cx.dir("many-hunks");
    std::fs::create_dir_all(&sub).unwrap();
    let mut cx2 = crate::engine::sub_cx(cx, sub.clone());
    let case = Case {
        opts: Opts { hunk: 10, ..opts },
        tree,
        patterns: vec!["*7".to_string(), "/w0/f0001*".to_string(), "w1/f1000?".to_string()],
        basis_patterns: None,
        via_file: false,
    };
    crate::engine::heartbeat();
    run(&case, &mut cx2).map_err(|mut f| {
        f.signature = format!("{}/probe-many-hunks", f.signature);
        f
    })?;
    crate::engine::force_remove(&sub);
    cx.add_evals(1);
    cx.inner_nontrivial += 1;

    // ... and on 3000 files in ONE index hunk (default options) where whole directories are
    // excluded whose own entries are followed by siblings that are kept, their contents by
    // the contents of those siblings
    for (i, patterns) in [vec!["/w0", "w2/f0002*"], vec!["w1"], vec!["/w0/**", "/w2"]].into_iter().enumerate() {
        crate::engine::heartbeat();
        let sub = cx.dir("one-big-hunk");
        std::fs::create_dir_all(&sub).unwrap();
        let mut cx2 = crate::engine::sub_cx(cx, sub.clone());
        let case = Case {
            opts: Opts::defaults(),
            tree: tree::wide_tree(3000, 3, 1, crate::probes::plain_meta()),
            patterns: patterns.iter().map(|s| s.to_string()).collect(),
            basis_patterns: if i == 1 { Some(vec![]) } else { None },
            via_file: i == 2,
        };
        run(&case, &mut cx2).map_err(|mut f| {
            f.signature = format!("{}/probe-one-big-hunk", f.signature);
            f
        })?;
        crate::engine::force_remove(&sub);
        cx.add_evals(1);
        cx.inner_nontrivial += 1;
    }
    // ... 4200 sibling directories, each with content, all excluded by one pattern: in the
    // index all of them come before any of their contents
    {
        crate::engine::heartbeat();
        let m = crate::probes::plain_meta();
        let mut t = Tree::empty_root(tree::Meta { mode: 0o755, ..m });
        for d in ["/spool", "/keep"] {
            t.0.insert(d.to_string(), tree::Node { kind: tree::Kind::Dir, meta: tree::Meta { mode: 0o755, ..m } });
        }
        t.0.insert("/keep/f".into(), tree::Node { kind: tree::Kind::File { pool: 3, len: 9 }, meta: m });
        for i in 0..4200u32 {
            t.0.insert(format!("/spool/job{i:05}"), tree::Node { kind: tree::Kind::Dir, meta: tree::Meta { mode: 0o755, ..m } });
            t.0.insert(format!("/spool/job{i:05}/payload"), tree::Node { kind: tree::Kind::File { pool: 2 + (i % 6) as u8, len: 5 + i % 7 }, meta: m });
        }
        t.0.insert("/spool/other".into(), tree::Node { kind: tree::Kind::File { pool: 4, len: 11 }, meta: m });
        let sub = cx.dir("many-excluded-siblings");
        std::fs::create_dir_all(&sub).unwrap();
        let mut cx2 = crate::engine::sub_cx(cx, sub.clone());
        let case = Case { opts: Opts::defaults(), tree: t, patterns: vec!["/spool/job*".to_string()], basis_patterns: None, via_file: false };
        run(&case, &mut cx2).map_err(|mut f| {
            f.signature = format!("{}/probe-many-excluded-siblings", f.signature);
            f
        })?;
        crate::engine::force_remove(&sub);
        cx.add_evals(1);
        cx.inner_nontrivial += 1;
    }
    // ... and pattern files of more than a megabyte each: 30 000 long patterns that match
    // nothing, the ones that matter at the very end
    {
        crate::engine::heartbeat();
        let mut patterns: Vec<String> = (0..30_000).map(|i| format!("/nowhere/{}/{i:05}", "x".repeat(110))).collect();
        patterns.extend(["/w0/f0001*", "*7", "/w1"].iter().map(|s| s.to_string()));
        let sub = cx.dir("long-pattern-files");
        std::fs::create_dir_all(&sub).unwrap();
        let mut cx2 = crate::engine::sub_cx(cx, sub.clone());
        let case = Case { opts: Opts::defaults(), tree: tree::wide_tree(300, 3, 1, crate::probes::plain_meta()), patterns, basis_patterns: None, via_file: true };
        run(&case, &mut cx2).map_err(|mut f| {
            f.signature = format!("{}/probe-long-pattern-files", f.signature);
            f.message = f.message.chars().take(600).collect();
            f
        })?;
        crate::engine::force_remove(&sub);
        cx.add_evals(1);
        cx.inner_nontrivial += 1;
    }
    Ok(())
}

pub fn prop() -> Prop<Case> {
    Prop {
        id: "C15",
        level: "exploration",
        rule: "case = (options, tree, 0-4 patterns built from the tree's own names and paths: anchored/unanchored x components of {literal, *, ?..., prefix*, *suffix, [xz]rest, [!xz]rest, **}, optionally ending in '/', in a glued '**', in '/**' or in '*'); four path sets below the root must coincide: entries decoded independently from backup(exclude=E), listing of a full backup with E, paths created by restoring the full backup with E, and the model rule 'omitted iff it or an ancestor matches a pattern' (anchored = whole path, unanchored = any component-boundary suffix; one-glob-vs-one-string matching delegated to the globset crate). Non-trivial = E excludes >=1 and keeps >=1 entry and some entry is excluded only through an ancestor; distinct by case hash; plus one fixed scale probe (10 012 files, 10 entries per hunk, three name globs); since round 6: in a quarter of the cases the patterns go through Exclude::from_patterns_and_files, dealt over up to three pattern files with comment and blank lines, every other file without a final newline; in 30% the filtered backup is incremental over a version of the same tree made with other patterns; and a second probe with 3000 files in ONE index hunk where whole directories are excluded whose entries are followed by kept siblings; since round 8 two more probes: 4200 sibling directories with content excluded by one pattern, and 30 000 long patterns that match nothing followed by the ones that matter, in pattern files of more than a megabyte each",
        assumptions: &[
            "single-pattern matching is delegated to the third-party globset crate (not conserve code); what is checked is conserve's pattern expansion, the pruning walk and the per-entry filters",
            "names contain no glob metacharacters; only patterns globset accepts are generated",
        ],
        cases: |t| t.pick(2000, 100_000),
        strategy,
        run,
        enumerate: Some(enumerate),
        exhaustive: |_| false,
        max_shrink_iters: 400,
    }
}
