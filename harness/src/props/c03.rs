//! C03 — a backup killed at any point leaves a consistent, usable archive.

use std::cmp::Ordering;

use proptest::prelude::*;
use serde_json::json;

use crate::engine::{CaseResult, Cx, Failure, Prop, Tier};
use crate::format::{self, ref_cmp};
use crate::hooks::{Key, Plan, V};
use crate::ops::{self, Sel};
use crate::props::c02::check_restore;
use crate::scen::{self, Base, Scenario};
use crate::tree::{self, CmpOpts, Kind};
use crate::{ensure, fail};

fn strategy(_tier: Tier) -> BoxedStrategy<Scenario> {
    scen::scenario_strategy(true, true)
}

fn check_point(base: &Base, sc: &Scenario, cx: &Cx, key: &Key, torn: bool, n: &mut u32) -> CaseResult {
    let w = &base.world;
    let pre = format::scan(&base.pristine);
    let prev_last = pre.bands.keys().copied().max();
    base.reset();
    let (r1, ctl1) = base.backup(sc.opts, Plan::FreezeAtKey { key: key.clone(), torn });
    if let Some(p) = &r1.panic {
        fail!(format!("C03/backup-panic@{}", ops::panic_site(p)), "interrupted backup panicked: {p}");
    }
    ensure!(ctl1.triggered(), "C03/harness/crash-point-not-reached", "key {key:?} did not occur");

    // (1) the archive opens
    let ids = ops::list_band_ids(&w.arch, &None);
    ensure!(ids.is_ok(), "C03/archive-does-not-open", "{}", ids.describe());
    let ids = ids.result.unwrap();

    // (3) no entry anywhere names a missing / short block
    let post = format::scan(&w.arch);
    if let Some(msg) = post.first_dangling() {
        fail!("C03/dangling-reference", "after crash before {key:?} (torn={torn}): {msg}");
    }

    // (2) every previously complete version restores exactly as before
    for (id, t) in w.complete_bands() {
        check_restore(w, cx, &Sel::Band(id), t, 0, "C03/previous-version", n)?;
    }

    // (2b) ... and the default selection (latest complete version) is still the newest of them,
    // unless the interrupted run got as far as creating its tail
    let tail_exists = post
        .bands
        .keys()
        .copied()
        .max()
        .filter(|m| prev_last.map_or(true, |p| *m > p))
        .map(|m| !post.bands[&m].tail.is_absent())
        .unwrap_or(false);
    if !tail_exists {
        if let Some((_, t)) = w.complete_bands().last() {
            check_restore(w, cx, &Sel::LatestClosed, t, 0, "C03/latest-complete-version", n)?;
        }
    }

    // (4) the interrupted version
    let new_id = post.bands.keys().copied().max().filter(|m| Some(*m) != prev_last && prev_last.map_or(true, |p| *m > p));
    if let Some(new_id) = new_id {
        let nb = &post.bands[&new_id];
        if nb.head.present_nonempty() {
            ensure!(ids.contains(&new_id), "C03/interrupted-version-not-listed", "band {new_id} has a head but versions lists {ids:?}");
            if nb.tail.is_absent() {
                let c = ops::band_is_closed(&w.arch, new_id);
                ensure!(
                    matches!(c.result, Ok(false)),
                    "C03/interrupted-version-reported-complete",
                    "band {new_id} has no tail but is_closed = {:?}",
                    c.result
                );
            }
            // own entries: a prefix (in path order) of the new tree, with the new content
            let mut model_paths: Vec<&String> = w.tree.0.keys().collect();
            model_paths.sort_by(|a, b| ref_cmp(a, b));
            let own: Vec<&format::RawEntry> = nb.all_entries();
            for (i, e) in own.iter().enumerate() {
                ensure!(
                    model_paths.get(i).map(|p| p.as_str()) == Some(e.apath.as_str()),
                    "C03/interrupted-band-not-a-prefix-of-source",
                    "entry {i} of the interrupted band is {:?}, the source's {i}-th path is {:?}",
                    e.apath,
                    model_paths.get(i)
                );
                if let Kind::File { pool, len } = &w.tree.0[&e.apath].kind {
                    let bytes = post.file_bytes(e).map_err(|m| Failure::new("C03/dangling-reference", m))?;
                    ensure!(
                        bytes == tree::content_bytes(*pool, *len),
                        "C03/interrupted-band-wrong-content",
                        "{}: recorded addresses do not give the new content",
                        e.apath
                    );
                }
            }
            // listing == stitching rule; continuation == previous listing after L
            let reference = format::ref_listing(&post, new_id);
            let l = ops::list_entries(&w.arch, &None, &Sel::Band(new_id), "/", &[], 100_000);
            ensure!(l.result.is_ok() && l.panic.is_none(), "C03/interrupted-version-listing-failed", "{}", l.describe());
            let got = l.result.unwrap();
            let gp: Vec<String> = got.iter().map(|e| e.apath.to_string()).collect();
            let rp: Vec<&str> = reference.iter().map(|(e, _)| e.apath.as_str()).collect();
            ensure!(
                gp.iter().map(|s| s.as_str()).eq(rp.iter().copied()),
                "C03/interrupted-version-listing",
                "listing of interrupted band {new_id}: got {gp:?}, stitching rule gives {rp:?}"
            );
            for (g, (r, _)) in got.iter().zip(reference.iter()) {
                ensure!(ops::entry_matches(g, r), "C03/interrupted-version-listing-entry", "{g:?} vs {r:?}");
            }
            // the same for a selection: every directory of the listing (at most three), and
            // with one exclusion
            let dirs: Vec<&str> = reference.iter().filter(|(e, _)| e.kind == "Dir" && e.apath != "/").map(|(e, _)| e.apath.as_str()).take(3).collect();
            for d in dirs {
                let l = ops::list_entries(&w.arch, &None, &Sel::Band(new_id), d, &[], 100_000);
                ensure!(l.result.is_ok() && l.panic.is_none(), "C03/interrupted-version-listing-failed", "{}", l.describe());
                let gp: Vec<String> = l.result.unwrap().iter().map(|e| e.apath.to_string()).collect();
                let wp: Vec<&str> = rp.iter().copied().filter(|p| tree::under(d, p)).collect();
                ensure!(
                    gp.iter().map(|s| s.as_str()).eq(wp.iter().copied()),
                    "C03/interrupted-version-subtree-listing",
                    "listing of {d} in interrupted band {new_id}: got {gp:?}, the stitched listing restricted to it is {wp:?}"
                );
            }
            // (a path used as a pattern must not contain glob metacharacters)
            let plain = |p: &str| !p.chars().any(|c| matches!(c, '*' | '?' | '[' | ']' | '{' | '}' | '\\' | '!'));
            if let Some(first_file) = reference.iter().find(|(e, _)| e.kind == "File" && plain(&e.apath)) {
                let pat = vec![first_file.0.apath.clone()];
                let l = ops::list_entries(&w.arch, &None, &Sel::Band(new_id), "/", &pat, 100_000);
                ensure!(l.result.is_ok() && l.panic.is_none(), "C03/interrupted-version-listing-failed", "{}", l.describe());
                let gp: Vec<String> = l.result.unwrap().iter().map(|e| e.apath.to_string()).collect();
                // an anchored pattern excludes the path and everything beneath it (in a stitched
                // listing an older band may still hold children of what is now a file)
                let wp: Vec<&str> = rp.iter().copied().filter(|p| !tree::under(&first_file.0.apath, p)).collect();
                ensure!(
                    gp.iter().map(|s| s.as_str()).eq(wp.iter().copied()),
                    "C03/interrupted-version-excluded-listing",
                    "listing of interrupted band {new_id} excluding {pat:?}: got {gp:?}, want {wp:?}"
                );
            }
            if !nb.is_closed() {
                if let Some(prev) = prev_last.filter(|p| pre.bands[p].head.present_nonempty()) {
                    let last_own = own.last().map(|e| e.apath.clone());
                    let prev_listing = format::ref_listing(&pre, prev);
                    let want_tail: Vec<&str> = prev_listing
                        .iter()
                        .map(|(e, _)| e.apath.as_str())
                        .filter(|p| last_own.as_ref().map_or(true, |l| ref_cmp(p, l) == Ordering::Greater))
                        .collect();
                    let got_tail: Vec<&str> = rp[own.len()..].to_vec();
                    ensure!(
                        got_tail == want_tail,
                        "C03/interrupted-version-continuation",
                        "after {last_own:?} the listing continues with {got_tail:?}; the previous version has {want_tail:?}"
                    );
                }
            }
            // restoring it: every listed file whose ancestors are all directories in the listing
            *n += 1;
            let dest = cx.dir("r").join(format!("n{n}"));
            std::fs::create_dir_all(cx.dir("r")).unwrap();
            let r = ops::restore(&w.arch, &None, &dest, &Sel::Band(new_id), None, &[], false);
            ensure!(r.panic.is_none() && r.result.is_ok(), "C03/interrupted-version-restore-failed", "{}", r.describe());
            let snap = tree::snapshot(&dest);
            let kinds: std::collections::BTreeMap<&str, &str> =
                reference.iter().map(|(e, _)| (e.apath.as_str(), e.kind.as_str())).collect();
            for (e, _) in &reference {
                if e.kind != "File" {
                    continue;
                }
                let mut ok_parents = true;
                let mut p = tree::parent_of(&e.apath);
                while let Some(pp) = p {
                    if pp != "/" && kinds.get(pp) != Some(&"Dir") {
                        ok_parents = false;
                    }
                    p = tree::parent_of(pp);
                }
                if !ok_parents {
                    continue;
                }
                let want = post.file_bytes(e).map_err(|m| Failure::new("C03/dangling-reference", m))?;
                match snap.get(&e.apath) {
                    Some(nd) if nd.content.as_deref() == Some(&want[..]) => {}
                    other => fail!(
                        "C03/interrupted-version-restore-content",
                        "{}: restored {:?}, expected {} bytes",
                        e.apath,
                        other.map(|n| (n.kind, n.content.as_ref().map(|c| c.len()))),
                        want.len()
                    ),
                }
            }
            crate::engine::force_remove(&dest);
        }
    }

    // (5) a later backup of the same source completes and restores exactly
    let (r2, _ctl2) = base.backup(sc.opts, Plan::None);
    ensure!(
        r2.panic.is_none() && r2.result.is_ok(),
        "C03/follow-up-backup-failed",
        "after crash before {key:?} (torn={torn}): {}",
        r2.describe()
    );
    *n += 1;
    let dest = cx.dir("r").join(format!("f{n}"));
    let r = ops::restore(&w.arch, &None, &dest, &Sel::LatestClosed, None, &[], false);
    ensure!(r.clean(), "C03/follow-up-restore-error", "{}", r.describe());
    if let Some((field, msg)) = tree::first_diff(&tree::expected(&w.tree), &tree::snapshot(&dest), CmpOpts::restore()) {
        fail!(format!("C03/follow-up-restore-diff/{field}"), "after crash before {key:?} (torn={torn}): {msg}");
    }
    crate::engine::force_remove(&dest);
    Ok(())
}

fn run(sc: &Scenario, cx: &mut Cx) -> CaseResult {
    let base = Base::build(&cx.scratch, sc);
    std::fs::create_dir_all(cx.dir("r")).unwrap();
    let trace = base.backup_trace(sc.opts);
    let all_points = scen::crash_points(&trace);
    let points = if cx.tier == Tier::Quick { scen::thin(&all_points, 80) } else { all_points.clone() };
    let only: Option<(Key, bool)> = cx.only_inner.as_ref().and_then(|v| serde_json::from_value(v.clone()).ok());
    let first_block_write = trace.iter().position(|l| l.key.verb == V::Write && l.key.path.starts_with("d/"));
    let tail_write = trace.iter().position(|l| l.key.verb == V::Write && l.key.path.ends_with("BANDTAIL"));
    let mut n = 0u32;
    let mut evals = 0u64;
    let mut nontrivial = 0u64;
    for (key, torn) in points {
        if let Some(o) = &only {
            if *o != (key.clone(), torn) {
                continue;
            }
        }
        crate::engine::heartbeat();
        let idx = trace.iter().position(|l| l.key == key).unwrap();
        let res = check_point(&base, sc, cx, &key, torn, &mut n);
        evals += 1;
        let mid = first_block_write.map_or(false, |f| idx > f) && tail_write.map_or(true, |t| idx < t);
        if mid || torn {
            nontrivial += 1;
        }
        if let Err(f) = res {
            cx.inner_failure(f.with_inner(json!((key, torn))))?;
        }
    }
    cx.add_evals(evals);
    cx.inner_nontrivial += nontrivial;
    cx.label_if(!base.world.bands.is_empty(), "has-previous-versions");
    cx.label_if(base.world.complete_bands().len() < base.world.bands.len(), "previous-incomplete-band");
    cx.label_if(all_points.len() > 80, "trace>80-points");
    Ok(())
}

/// Scale probe (see probes.rs): crash points of a backup that writes 10 015 index hunks,
/// around the creation of the second index sub-directory and at the tail.
fn enumerate(tier: Tier, idx: u32, of: u32, cx: &mut Cx) -> CaseResult {
    if !crate::probes::mine(idx, of) {
        return Ok(());
    }
    let (opts, tree) = crate::probes::many_hunks_tree(10_012);
    let sc = Scenario { initial: tree, prefix: vec![], edits: vec![], opts, id_spread: 1, headless_band: 0 };
    let sub = cx.dir("many-hunks");
    std::fs::create_dir_all(sub.join("r")).unwrap();
    let mut cx2 = crate::engine::sub_cx(cx, sub.clone());
    let base = Base::build(&sub, &sc);
    let key = |verb: V, path: &str| Key { verb, path: path.to_string(), occ: 0 };
    let mut points = vec![
        (key(V::CreateDir, "b0000/i/00001"), false),
        (key(V::Write, "b0000/i/00001/000010000"), true),
    ];
    if tier == Tier::Thorough {
        points.push((key(V::Write, "b0000/i/00000/000009999"), false));
        points.push((key(V::Write, "b0000/i/00001/000010001"), false));
        points.push((key(V::Write, "b0000/BANDTAIL"), false));
    }
    let mut n = 0u32;
    for (k, torn) in points {
        crate::engine::heartbeat();
        check_point(&base, &sc, &cx2, &k, torn, &mut n).map_err(|mut f| {
            f.signature = format!("{}/probe-many-hunks", f.signature);
            f.inner = json!((k, torn));
            f
        })?;
        cx.add_evals(1);
        cx.inner_nontrivial += 1;
    }
    cx2.labels.clear();
    crate::engine::force_remove(&sub);

    // One very large file between small ones (see probes.rs), killed before the last block
    // is written (thorough: and before the tail).
    let (opts, tree) = crate::probes::huge_file_tree();
    let sc = Scenario { initial: tree, prefix: vec![], edits: vec![], opts, id_spread: 1, headless_band: 0 };
    let sub = cx.dir("huge-file");
    std::fs::create_dir_all(sub.join("r")).unwrap();
    let cx3 = crate::engine::sub_cx(cx, sub.clone());
    let base = Base::build(&sub, &sc);
    crate::engine::heartbeat();
    let trace = base.backup_trace(sc.opts);
    let last_block = trace.iter().rev().find(|l| l.key.verb == V::Write && l.key.path.starts_with("d/")).map(|l| l.key.clone());
    let mut points: Vec<(Key, bool)> = last_block.into_iter().map(|k| (k, false)).collect();
    if tier == Tier::Thorough {
        points.push((key(V::Write, "b0000/BANDTAIL"), false));
    }
    for (k, torn) in points {
        crate::engine::heartbeat();
        check_point(&base, &sc, &cx3, &k, torn, &mut n).map_err(|mut f| {
            f.signature = format!("{}/probe-huge-file", f.signature);
            f.inner = json!((k, torn));
            f
        })?;
        cx.add_evals(1);
        cx.inner_nontrivial += 1;
    }
    crate::engine::force_remove(&sub);

    // A long previous version in hunks of three entries (1300 hunks); the same tree is
    // backed up again in hunks of two, so the hunk boundaries lie differently, and that backup
    // is killed at an index hunk a quarter and a half of the way through: the interrupted
    // version resumes inside a hunk of the long older index.
    let o = ops::Opts { hunk: 2, block: 1 << 16, cap: 1 << 20 };
    let sc = Scenario {
        initial: tree::wide_tree(3900, 2, 3, crate::probes::plain_meta()),
        prefix: vec![crate::history::Op::Backup(ops::Opts { hunk: 3, ..o })],
        edits: vec![],
        opts: o,
        id_spread: 1,
        headless_band: 0,
    };
    let sub = cx.dir("long-basis");
    std::fs::create_dir_all(sub.join("r")).unwrap();
    let cx4 = crate::engine::sub_cx(cx, sub.clone());
    let base = Base::build(&sub, &sc);
    crate::engine::heartbeat();
    let trace = base.backup_trace(sc.opts);
    let hunk_writes: Vec<Key> = trace.iter().filter(|l| l.key.verb == V::Write && l.key.path.contains("/i/")).map(|l| l.key.clone()).collect();
    ensure!(
        hunk_writes.len() > 1200,
        "C03/harness/probe-too-small",
        "{} hunk writes of {} operations ({} writes, {} reads; first writes {:?}); last: {:?}",
        hunk_writes.len(),
        trace.len(),
        trace.iter().filter(|l| l.key.verb == V::Write).count(),
        trace.iter().filter(|l| l.key.verb == V::Read).count(),
        trace.iter().filter(|l| l.key.verb == V::Write).take(6).map(|l| l.key.path.clone()).collect::<Vec<_>>(),
        trace.iter().rev().take(4).map(|l| format!("{:?} {} ok={}", l.key.verb, l.key.path, l.ok)).collect::<Vec<_>>()
    );
    let mut points = vec![hunk_writes[hunk_writes.len() / 4].clone(), hunk_writes[hunk_writes.len() / 2 + 1].clone()];
    if tier == Tier::Thorough {
        points.push(hunk_writes[hunk_writes.len() - 5].clone());
        points.push(hunk_writes[3].clone());
    }
    for k in points {
        crate::engine::heartbeat();
        check_point(&base, &sc, &cx4, &k, false, &mut n).map_err(|mut f| {
            f.signature = format!("{}/probe-long-basis", f.signature);
            f.inner = json!((k, false));
            f
        })?;
        cx.add_evals(1);
        cx.inner_nontrivial += 1;
    }
    crate::engine::force_remove(&sub);
    Ok(())
}

pub fn prop() -> Prop<Scenario> {
    Prop {
        id: "C03",
        level: "fault_enumeration",
        rule: "scenario = (initial tree, history prefix of <=3 ops incl. interrupted backups/deletes, edits, options biased to small blocks/hunks) generated by proptest; inner domain enumerated per scenario: every crash point of the logged storage trace of the backup with a distinct outcome = 'storage frozen before mutating operation k' for every mutating k, plus for every write the torn variant (empty file left at the target); quick tier thins to <=80 evenly spaced points per scenario, thorough takes all. Oracle per point: archive opens; every previously complete version restores exactly; independent decoder finds no dangling/short address in any band; if the new head exists the version is listed, not closed, its own entries are a path-order prefix of the new source with the new bytes, its listing equals the stitching rule entry-for-entry and continues with the previous listing after the last recorded path, restore gives the recorded bytes for every file whose ancestors are directories; a follow-up backup succeeds and restores exactly. Non-trivial = crash after the first block write and before the tail write, or any torn write; counted per (scenario, point), distinct by construction. Fixed scale probe per run: a backup writing 10 015 index hunks, killed before the second index sub-directory is created and (torn) while its first hunk is written (thorough: also hunks 9 999, 10 001 and the tail); and a backup of one 272 MiB file between small ones killed before its last block write (thorough: and before the tail); since round 7 a third probe: a backup killed a quarter and a half of the way through writing its index over a previous version of 1300 three-entry hunks whose boundaries lie differently",
        assumptions: &[
            "a crash is modelled at transport-operation granularity: the storage becomes inert (every later operation fails without effect); stopping before a non-mutating operation leaves the same directory as stopping before the next mutating one, so only mutating points are enumerated",
            "torn write = zero-length file at the target; partial content and fsync ordering are not modelled",
        ],
        cases: |t| t.pick(96, 1200),
        strategy,
        run,
        enumerate: Some(enumerate),
        exhaustive: |_| false,
        max_shrink_iters: 60,
    }
}
