//! C01 — backup then restore reproduces the source tree exactly.

use std::collections::BTreeMap;

use proptest::prelude::*;
use serde::{Deserialize, Serialize};

use crate::engine::{CaseResult, Cx, Failure, Prop, Tier};
use crate::ops::{self, Opts, Sel};
use crate::tree::{self, CmpOpts, Tree, TreeCfg};
use crate::{ensure, format};

#[derive(Debug, Clone, Serialize, Deserialize)]
pub struct Case {
    pub opts: Opts,
    pub tree: Tree,
    /// `BackupOptions::owner`: off in an eighth of the cases (owners are then neither
    /// recorded nor compared; everything else must still come back exactly).
    #[serde(default = "yes")]
    pub record_owner: bool,
}

fn yes() -> bool {
    true
}

fn strategy(tier: Tier) -> BoxedStrategy<Case> {
    prop_oneof![
        200 => tree::opts_tree_strategy(TreeCfg::full()),
        // wide trees: > 100 distinct blocks; in the thorough tier occasionally > 10 000 hunks
        1 => tree::wide_strategy(tier == Tier::Thorough),
    ]
    .prop_flat_map(|(opts, tree)| {
        (prop_oneof![7 => Just(true), 1 => Just(false)], prop::option::weighted(0.25, (any::<u16>(), any::<u16>()))).prop_map(move |(record_owner, twins)| {
            // a quarter of the trees hold two files equal in every respect, written as hard
            // links of one another
            let mut tree = tree.clone();
            if let Some((i, j)) = twins {
                tree::make_twins(&mut tree, i, j);
            }
            Case { opts, tree, record_owner }
        })
    })
    .boxed()
}

fn run(case: &Case, cx: &mut Cx) -> CaseResult {
    let src = cx.dir("src");
    let arch = cx.dir("arch");
    std::fs::create_dir_all(cx.dir("r")).unwrap();
    let dest = cx.dir("r").join("dest");
    tree::set_link_twins(true);
    tree::materialise(&case.tree, &src);
    tree::set_link_twins(false);
    let c = ops::create_archive(&arch);
    ensure!(c.clean(), "C01/create-archive", "{}", c.describe());

    ops::set_record_owner(case.record_owner);
    let b = ops::backup(&arch, &None, &src, case.opts, &[]);
    ops::set_record_owner(true);
    if let Some(p) = &b.panic {
        return Err(Failure::new(
            format!("C01/backup-panic@{}", ops::panic_site(p)),
            format!("backup panicked: {p}"),
        ));
    }
    ensure!(
        !ops::backup_reported_error(&b),
        "C01/backup-error",
        "backup of a plain tree reported errors: {} stats.errors={:?}",
        b.describe(),
        b.result.as_ref().map(|o| o.stats.errors).ok()
    );

    // The (empty) destination directory itself varies: absent, or there with the set-group-id
    // bit and another group, under which everything created in it inherits that group.
    match case.tree.0.len() % 4 {
        1 => {
            std::fs::create_dir(&dest).unwrap();
            let c = std::ffi::CString::new(std::os::unix::ffi::OsStrExt::as_bytes(dest.as_os_str())).unwrap();
            unsafe {
                libc::chown(c.as_ptr(), 0, 7);
                libc::chmod(c.as_ptr(), 0o2775);
            }
            cx.label("destination-setgid-other-group");
        }
        2 => {
            std::fs::create_dir(&dest).unwrap();
        }
        _ => {}
    }
    let r = ops::restore(&arch, &None, &dest, &Sel::LatestClosed, None, &[], false);
    if let Some(p) = &r.panic {
        return Err(Failure::new(
            format!("C01/restore-panic@{}", ops::panic_site(p)),
            format!("restore panicked: {p}"),
        ));
    }
    ensure!(r.clean(), "C01/restore-error", "restore reported errors: {}", r.describe());

    let want = tree::expected(&case.tree);
    let got = tree::snapshot(&dest);
    let mut want_restored = want.clone();
    if !case.record_owner {
        // owners were not recorded: whatever the restored entries belong to is accepted
        for (p, w) in want_restored.iter_mut() {
            if let Some(g) = got.get(p) {
                w.uid = g.uid;
                w.gid = g.gid;
            }
        }
        let ra = format::scan(&arch);
        for b in ra.bands.values() {
            for e in b.all_entries() {
                ensure!(
                    e.user.is_none() && e.group.is_none(),
                    "C01/owner-recorded-although-off",
                    "{}: user {:?} group {:?} recorded by a backup made with owner = false",
                    e.apath,
                    e.user,
                    e.group
                );
            }
        }
    }
    let want_restored = &want_restored;
    if let Some((field, msg)) = tree::first_diff(want_restored, &got, CmpOpts::restore()) {
        return Err(Failure::new(format!("C01/restore-diff/{field}"), msg));
    }

    // The source must still be what we wrote (backup must not modify it).
    let src_now = tree::snapshot(&src);
    if let Some((field, msg)) = tree::first_diff(&want, &src_now, CmpOpts::restore()) {
        return Err(Failure::new(format!("C01/source-modified/{field}"), msg));
    }

    classify(case, &arch, cx);
    Ok(())
}

/// Measure (from the archive as decoded independently) what this case exercised.
fn classify(case: &Case, arch: &std::path::Path, cx: &mut Cx) {
    let ra = format::scan(arch);
    let mut feats = 0;
    let band = ra.bands.values().next();
    let mut per_block: BTreeMap<&str, usize> = BTreeMap::new();
    let mut multi_block = false;
    if let Some(b) = band {
        for e in b.all_entries() {
            if e.addrs.len() >= 2 {
                multi_block = true;
            }
            for a in &e.addrs {
                *per_block.entry(a.hash.as_str()).or_default() += 1;
            }
        }
    }
    let combined = per_block.values().any(|n| *n >= 2);
    let hunks = band.map(|b| b.hunks.len()).unwrap_or(0);
    let t = &case.tree;
    let nonempty_file = t.0.values().any(|n| matches!(n.kind, tree::Kind::File { len, .. } if len > 0));
    let exact_multiple = t.0.values().any(|n| {
        matches!(n.kind, tree::Kind::File { len, .. } if len > 0 && case.opts.block <= 4096 && (len as usize) % case.opts.block == 0)
    });
    let special_mode = t.0.values().any(|n| !n.is_link() && n.meta.mode & 0o7000 != 0);
    let odd_time = t.0.values().any(|n| n.meta.mtime_s < 0 || n.meta.mtime_ns != 0);
    let neg_frac = t.0.values().any(|n| n.meta.mtime_s < 0 && n.meta.mtime_ns != 0);
    let non_ascii = t.0.keys().any(|k| !k.is_ascii());
    let symlink = t.0.values().any(|n| n.is_link());
    let owner = t.0.values().any(|n| n.meta.uid != 0 || n.meta.gid != 0);
    for (c, l) in [
        (combined, "combined-block"),
        (multi_block, "multi-block-file"),
        (exact_multiple, "exact-block-multiple"),
        (special_mode, "setid-or-sticky"),
        (odd_time, "pre1970-or-subsecond"),
        (non_ascii, "non-ascii-name"),
        (symlink, "symlink"),
        (owner, "non-root-owner"),
        (hunks >= 2, "multi-hunk"),
    ] {
        if c {
            feats += 1;
            cx.label(l);
        }
    }
    cx.label_if(neg_frac, "pre1970-with-nanos");
    cx.label_if(combined && multi_block, "combined+multiblock");
    cx.label_if(t.0.len() <= 2, "tiny-tree");
    cx.label_if(!case.record_owner, "owner-not-recorded");
    cx.label_if(t.max_depth() > 8, "deeper-than-8-levels");
    cx.label_if(ra.blocks.len() > 100, ">100-blocks");
    cx.label_if(hunks > 10_000, ">10000-hunks");
    cx.nontrivial = nonempty_file && feats >= 2;
}

/// Scale probes (see probes.rs): > 10 000 index hunks, and blocks of several MiB.
fn enumerate(_tier: Tier, idx: u32, of: u32, cx: &mut Cx) -> CaseResult {
    if !crate::probes::mine(idx, of) {
        return Ok(());
    }
    for (name, (opts, tree)) in [
        ("many-hunks", crate::probes::many_hunks_tree(10_012)),
        ("big-blocks", crate::probes::big_blocks_tree()),
        ("huge-blocks", crate::probes::huge_block_tree()),
        ("odd-block-size", crate::probes::odd_block_size_tree()),
        ("huge-file", crate::probes::huge_file_tree()),
        ("big-hunk", crate::probes::big_hunk_tree()),
        // more entries than one index hunk takes with the default options (100 000)
        ("over-default-hunk", crate::probes::over_default_hunk_tree()),
        // 700 directories while the process may hold at most 512 open files
        ("many-dirs-low-fd-limit", crate::probes::many_dirs_tree()),
    ] {
        crate::engine::heartbeat();
        let t0 = std::time::Instant::now();
        let sub = cx.dir(name);
        std::fs::create_dir_all(&sub).unwrap();
        let mut cx2 = crate::engine::sub_cx(cx, sub.clone());
        let case = Case { opts, tree, record_owner: true };
        let outcome = if name == "many-dirs-low-fd-limit" {
            crate::probes::with_fd_limit(512, || run(&case, &mut cx2))
        } else {
            run(&case, &mut cx2)
        };
        outcome.map_err(|mut f| {
            f.signature = format!("{}/probe-{name}", f.signature);
            f.inner = serde_json::json!({"probe": name});
            f
        })?;
        cx.add_evals(1);
        cx.inner_nontrivial += 1;
        cx.labels.extend(cx2.labels.iter().map(|l| format!("probe:{l}")));
        crate::engine::force_remove(&sub);
        if std::env::var("VERIF_TIMING").is_ok() {
            eprintln!("C01 probe {name}: {:?}", t0.elapsed());
        }
    }
    Ok(())
}

pub fn prop() -> Prop<Case> {
    Prop {
        id: "C01",
        level: "exploration",
        rule: "case = (options triple, generated tree <=40 nodes; 0.5% of cases are 'wide' trees of 110-320 files in 1-3 directories with mostly one block per file, and in the thorough tier occasionally > 10 000 files with one entry per hunk); non-trivial iff the tree has a non-empty file and >=2 of {combined block with >=2 files, file spanning >=2 blocks, file at exact block multiple, setuid/setgid/sticky bit, pre-1970 or sub-second mtime, non-ASCII name, symlink, non-root owner, >=2 index hunks} as measured from the independently decoded archive; distinct = distinct case JSON hash; plus five fixed scale probes per run (10 012 files with one entry per index hunk, i.e. a second index sub-directory; files stored as single blocks of 1 MiB+7, 5.5 MiB (twice) and 6 MiB with default options; single blocks of 40 MiB and 33 MiB+1 written with a 64 MiB block size; one 272 MiB file between small ones; 10 000 files with paths of 3.3 KB, an index hunk of more than 32 MiB); since round 6: one tree in sixteen hangs below a chain of 5-40 nested directories, names reach 251-255 bytes exactly, an eighth of the backups run with owner = false (owners then neither recorded nor compared), and two more probes: 100 200 files with default options (two index hunks by default) and 700 directories restored while the process may hold at most 512 open files; since round 8 the empty destination directory is absent, plain, or set-group-id with another group (what is created in it inherits that group), and a quarter of the trees hold two files equal in every respect that are written as hard links of one another",
        assumptions: &[
            "runs as root on tmpfs; owners drawn from ids with names in /etc/passwd and /etc/group",
            "snapshot oracle uses lstat/readlink/read only (no conserve code)",
        ],
        cases: |t| t.pick(3000, 150_000),
        strategy,
        run,
        enumerate: Some(enumerate),
        exhaustive: |_| false,
        max_shrink_iters: 400,
    }
}
