//! C14 — work already stored is never stored again.

use std::collections::{BTreeMap, BTreeSet};

use proptest::prelude::*;
use serde::{Deserialize, Serialize};
use serde_json::json;

use crate::engine::{CaseResult, Cx, Failure, Prop, Tier};
use crate::format::{self, RawAddr};
use crate::history::{History, StepKind, World, history_strategy};
use crate::hooks::{Key, Logged, Plan, Pre, V};
use crate::ops::{self, Opts};
use crate::props::c02::hist_cfg;
use crate::scen::{self, Base, Scenario};
use crate::tree::{self, Tree, TreeCfg};
use crate::{ensure, fail};

#[derive(Debug, Clone, Serialize, Deserialize)]
pub enum Case {
    /// Back up the same untouched tree twice, with possibly different options.
    Twice { opts1: Opts, opts2: Opts, tree: Tree },
    /// As `Twice`, but while the first backup runs a later file of the directory being read is
    /// replaced by a directory (reading it fails). The second backup of the then unchanged
    /// tree must still find every other file recorded and store nothing.
    TwiceAfterReadError { opts1: Opts, opts2: Opts, tree: Tree, when: u16, victim: u16 },
    Hist(History),
    /// Interrupt a backup at every crash point, then resume with an unchanged source.
    Resume(Scenario),
}

fn strategy(tier: Tier) -> BoxedStrategy<Case> {
    // Resume scenarios are expensive (whole enumeration inside): keep their share small.
    let (w_twice, w_hist, w_resume) = tier.pick((100, 20, 1), (100, 20, 1));
    prop_oneof![
        w_twice => (tree::opts_tree_strategy(TreeCfg::full()), tree::opts_strategy())
            .prop_map(|((opts1, tree), opts2)| Case::Twice { opts1, opts2, tree }),
        10 => (tree::opts_tree_strategy(TreeCfg { max_children: 8, links: false, ..TreeCfg::plain() }), tree::opts_strategy(), any::<u16>(), any::<u16>())
            .prop_map(|((opts1, tree), opts2, when, victim)| Case::TwiceAfterReadError { opts1, opts2, tree, when, victim }),
        w_hist => history_strategy(hist_cfg(tier)).prop_map(Case::Hist),
        w_resume => scen::scenario_strategy(false, false).prop_map(Case::Resume),
    ]
    .boxed()
}

fn block_writes(log: &[Logged]) -> Vec<&Logged> {
    log.iter()
        .filter(|l| l.key.verb == V::Write && l.key.path.starts_with("d/"))
        .collect()
}

fn addrs_by_path(ra: &format::RawArchive, band: u32) -> BTreeMap<String, Vec<RawAddr>> {
    ra.bands
        .get(&band)
        .map(|b| {
            b.all_entries()
                .into_iter()
                .map(|e| (e.apath.clone(), e.addrs.clone()))
                .collect()
        })
        .unwrap_or_default()
}

fn check_no_rewrite(log: &[Logged], what: &str) -> CaseResult {
    for l in block_writes(log) {
        if let Pre::File(n) = l.pre {
            if n > 0 {
                fail!(
                    "C14/block-written-again",
                    "{what}: wrote {} although it already existed with {n} bytes",
                    l.key.path
                );
            }
        }
    }
    Ok(())
}

fn run_twice(opts1: Opts, opts2: Opts, t: &Tree, cx: &mut Cx) -> CaseResult {
    run_twice_with(opts1, opts2, t, None, cx)
}

/// `swap`: (path whose report triggers it, path of the file that becomes a directory then).
fn run_twice_with(opts1: Opts, opts2: Opts, t: &Tree, swap: Option<(String, String)>, cx: &mut Cx) -> CaseResult {
    let w = World::new(&cx.scratch, t);
    if let Some((trigger, victim)) = &swap {
        let path = tree::fs_path(&w.src, victim);
        let trigger = trigger.clone();
        ops::set_on_change(Some(Box::new(move |apath: &str| {
            if apath == trigger {
                let _ = std::fs::remove_file(&path);
                let _ = std::fs::create_dir(&path);
            }
        })));
    }
    let b1 = ops::backup(&w.arch, &None, &w.src, opts1, &[]);
    ops::set_on_change(None);
    if swap.is_none() {
        ensure!(!ops::backup_reported_error(&b1), "C14/backup-error", "{}", b1.describe());
    } else {
        // the first backup may report the unreadable file; it must not fail as a whole
        ensure!(b1.panic.is_none() && b1.result.is_ok(), "C14/backup-of-changing-tree-failed", "{}", b1.describe());
        cx.label("first-backup-met-a-read-error");
    }
    let ctl = crate::hooks::Ctl::new(&w.arch, Plan::None);
    let hook: ops::Hook = Some(ctl.clone() as std::sync::Arc<dyn conserve::transport::verif::Interceptor>);
    let b2 = ops::backup(&w.arch, &hook, &w.src, opts2, &[]);
    ensure!(!ops::backup_reported_error(&b2), "C14/backup-error", "second: {}", b2.describe());
    let log = ctl.log();
    let bw = block_writes(&log);
    ensure!(
        bw.is_empty(),
        "C14/unchanged-tree-wrote-blocks",
        "second backup of an untouched tree wrote {} block file(s), e.g. {}",
        bw.len(),
        bw[0].key.path
    );
    let stats = &b2.result.as_ref().unwrap().stats;
    ensure!(
        stats.written_blocks == 0,
        "C14/unchanged-tree-written-blocks-stat",
        "written_blocks = {}",
        stats.written_blocks
    );
    // "reuses its recorded entries": every file is recognised as unchanged, none is read
    // again (content that is stored again and then deduplicated writes no block either)
    ensure!(
        stats.new_files == 0 && stats.modified_files == 0 && stats.unmodified_files == stats.files,
        "C14/unchanged-tree-files-read-again",
        "second backup of an untouched tree: {} files, {} unmodified, {} modified, {} new",
        stats.files,
        stats.unmodified_files,
        stats.modified_files,
        stats.new_files
    );
    let ra = format::scan(&w.arch);
    let mut a0 = addrs_by_path(&ra, 0);
    let mut a1 = addrs_by_path(&ra, 1);
    if let Some((_, victim)) = &swap {
        // the path that changed kind during the first backup is not "unchanged"
        a0.remove(victim);
        a1.remove(victim);
    }
    ensure!(
        a0 == a1,
        "C14/unchanged-tree-addresses-differ",
        "addresses recorded for the unchanged tree differ between the two versions: {:?}",
        a0.iter().find(|(p, a)| a1.get(*p) != Some(a)).map(|(p, _)| p)
    );
    let combined = {
        let mut per: BTreeMap<&str, usize> = BTreeMap::new();
        for a in a0.values().flatten() {
            *per.entry(&a.hash).or_default() += 1;
        }
        per.values().any(|n| *n >= 2)
    };
    let multi = a0.values().any(|a| a.len() >= 2);
    cx.label("twice");
    cx.label_if(combined, "combined-block");
    cx.label_if(multi, "multi-block-file");
    cx.label_if(opts1 != opts2, "different-options");
    cx.nontrivial = combined && multi;
    Ok(())
}

fn run_hist(h: &History, cx: &mut Cx) -> CaseResult {
    let mut w = World::for_history(&cx.scratch, h);
    let mut backups = 0;
    let mut dedup_seen = false;
    for (i, op) in h.ops.iter().enumerate() {
        let step = w.apply(op);
        if let StepKind::Backup { log, report, .. } = &step {
            ensure!(report.panic.is_none(), "C14/backup-panic", "step {i}: {}", report.describe());
            check_no_rewrite(log, &format!("step {i}"))?;
            backups += 1;
            if let Ok(o) = &report.result {
                dedup_seen |= o.stats.deduplicated_blocks > 0 || o.stats.unmodified_files > 0;
            }
        }
    }
    cx.label("history");
    cx.nontrivial = backups >= 2 && dedup_seen;
    cx.add_evals(backups);
    Ok(())
}

fn run_resume(sc: &Scenario, cx: &mut Cx) -> CaseResult {
    let base = Base::build(&cx.scratch, sc);
    let trace = base.backup_trace(sc.opts);
    let mut points = scen::crash_points(&trace);
    if cx.tier == Tier::Quick {
        points = scen::thin(&points, 60);
    }
    let probe_thin = PROBE_THIN.with(|t| t.get());
    if probe_thin > 0 {
        points = scen::thin(&points, probe_thin);
    }
    let only: Option<(Key, bool)> = cx
        .only_inner
        .as_ref()
        .and_then(|v| serde_json::from_value(v.clone()).ok());
    let mut evals = 0u64;
    let mut nontrivial = 0u64;
    for (key, torn) in points {
        if let Some(o) = &only {
            if *o != (key.clone(), torn) {
                continue;
            }
        }
        crate::engine::heartbeat();
        base.reset();
        let (r1, ctl1) = base.backup(sc.opts, Plan::FreezeAtKey { key: key.clone(), torn });
        let inner = json!((key.clone(), torn));
        if let Some(p) = &r1.panic {
            cx.inner_failure(
                Failure::new(format!("C14/interrupted-backup-panic@{}", ops::panic_site(p)), p.clone()).with_inner(inner.clone()),
            )?;
            continue;
        }
        let log1 = ctl1.log();
        let written1: BTreeSet<String> = block_writes(&log1)
            .into_iter()
            .filter(|l| l.ok)
            .map(|l| l.key.path.clone())
            .collect();
        let gap = PROBE_GAP.with(|t| t.get());
        if gap > 0 {
            // renumber the interrupted run's band far above the others (as after thousands of
            // deleted versions)
            let before: BTreeSet<u32> = format::scan(&base.pristine).bands.keys().copied().collect();
            let now = format::scan(&base.world.arch);
            if let Some(nb) = now.bands.keys().copied().find(|b| !before.contains(b)) {
                std::fs::rename(
                    base.world.arch.join(format::band_dirname(nb)),
                    base.world.arch.join(format::band_dirname(nb + gap)),
                )
                .unwrap();
            }
        }
        let ra1 = format::scan(&base.world.arch);
        let interrupted_band = ra1.bands.keys().copied().max();
        let (r2, ctl2) = base.backup(sc.opts, Plan::None);
        let res: CaseResult = (|| {
            ensure!(r2.panic.is_none() && r2.result.is_ok(), "C14/resumed-backup-failed", "{}", r2.describe());
            let log2 = ctl2.log();
            check_no_rewrite(&log2, "resumed backup")?;
            for l in block_writes(&log2) {
                ensure!(
                    !written1.contains(&l.key.path),
                    "C14/resume-rewrote-block",
                    "resumed backup wrote {} which the interrupted run had already stored",
                    l.key.path
                );
            }
            let ra2 = format::scan(&base.world.arch);
            // Every file that is unchanged with respect to the (stitched) basis the resumed run
            // starts from -- the interrupted band's own entries, then the previous version after
            // them -- must be recorded with the basis entry's addresses: nothing is stored again.
            if let (Some(top), Some(new_band)) = (ra1.bands.keys().copied().max(), ra2.bands.keys().copied().max()) {
                if new_band > top {
                    let basis = format::ref_listing(&ra1, top);
                    let new = addrs_by_path(&ra2, new_band);
                    for (b, _) in &basis {
                        if b.kind != "File" || b.addrs.is_empty() {
                            continue;
                        }
                        if let Some(crate::tree::Node { kind: crate::tree::Kind::File { len, .. }, meta }) = base.world.tree.0.get(&b.apath) {
                            if *len as u64 == b.size() && meta.mtime_s == b.mtime && meta.mtime_ns as u64 == b.mtime_nanos {
                                ensure!(
                                    new.get(&b.apath) == Some(&b.addrs),
                                    "C14/unchanged-file-stored-again-after-resume",
                                    "{}: unchanged since the basis (size {} mtime {}.{}), which records {:?}; the resumed band records {:?}",
                                    b.apath,
                                    len,
                                    b.mtime,
                                    b.mtime_nanos,
                                    b.addrs.iter().map(|a| (&a.hash[..8], a.start, a.len)).collect::<Vec<_>>(),
                                    new.get(&b.apath).map(|v| v.iter().map(|a| (&a.hash[..8], a.start, a.len)).collect::<Vec<_>>())
                                );
                            }
                        }
                    }
                }
            }
            if let Some(ib) = interrupted_band {
                let new_band = ra2.bands.keys().copied().max().unwrap();
                if new_band != ib && ra1.bands[&ib].head.present_nonempty() {
                    let old = addrs_by_path(&ra1, ib);
                    let new = addrs_by_path(&ra2, new_band);
                    for (p, a) in &old {
                        if a.is_empty() {
                            continue;
                        }
                        // only if it is still the interrupted run's own band (not pre-existing)
                        if ra1.bands[&ib].is_closed() {
                            continue;
                        }
                        ensure!(
                            new.get(p) == Some(a),
                            "C14/resume-did-not-reuse-entry",
                            "{p}: interrupted band {ib} recorded {a:?}, resumed band {new_band} recorded {:?}",
                            new.get(p)
                        );
                    }
                }
            }
            Ok(())
        })();
        evals += 1;
        if !written1.is_empty() {
            nontrivial += 1;
        }
        if let Err(f) = res {
            cx.inner_failure(f.with_inner(inner))?;
        }
    }
    cx.add_evals(evals);
    cx.inner_nontrivial += nontrivial;
    cx.label("resume-scenario");
    Ok(())
}

fn run(case: &Case, cx: &mut Cx) -> CaseResult {
    match case {
        Case::Twice { opts1, opts2, tree } => run_twice(*opts1, *opts2, tree, cx),
        Case::TwiceAfterReadError { opts1, opts2, tree, when, victim } => {
            let mut files: Vec<&String> = tree.0.iter().filter(|(_, n)| matches!(n.kind, tree::Kind::File { len, .. } if len > 0)).map(|(p, _)| p).collect();
            files.sort_by(|a, b| format::ref_cmp(a, b));
            if files.len() < 2 {
                return run_twice(*opts1, *opts2, tree, cx);
            }
            let wi = (*when as usize * (files.len() - 1)) >> 16;
            let trigger = files[wi].clone();
            let later: Vec<&String> = files[wi + 1..].iter().copied().filter(|p| tree::parent_of(p) == tree::parent_of(&trigger)).collect();
            if later.is_empty() {
                return run_twice(*opts1, *opts2, tree, cx);
            }
            let v = later[(*victim as usize * later.len()) >> 16].clone();
            run_twice_with(*opts1, *opts2, tree, Some((trigger, v)), cx)
        }
        Case::Hist(h) => run_hist(h, cx),
        Case::Resume(sc) => run_resume(sc, cx),
    }
}

/// Scale probes (see probes.rs): duplicate multi-MiB blocks within and across backups, and
/// a resume over a basis band of 200 index hunks whose hunk boundaries are shifted.
fn enumerate(_tier: Tier, idx: u32, of: u32, cx: &mut Cx) -> CaseResult {
    if !crate::probes::mine(idx, of) {
        return Ok(());
    }
    let (opts, tree) = crate::probes::big_blocks_tree();
    let sub = cx.dir("big-blocks");
    std::fs::create_dir_all(&sub).unwrap();
    let mut cx2 = crate::engine::sub_cx(cx, sub.clone());
    run_twice(opts, opts, &tree, &mut cx2).map_err(|mut f| {
        f.signature = format!("{}/probe-big-blocks", f.signature);
        f
    })?;
    // each distinct content written once: the two identical 5.5 MiB files share one block
    let ra = format::scan(&sub.join("arch"));
    let a = addrs_by_path(&ra, 0);
    ensure!(
        a.get("/dup-a") == a.get("/dup-b") && a.get("/dup-a").map(|v| v.len()) == Some(1),
        "C14/probe-big-blocks/duplicate-content-not-shared",
        "{:?} vs {:?}",
        a.get("/dup-a"),
        a.get("/dup-b")
    );
    crate::engine::force_remove(&sub);
    cx.add_evals(1);
    cx.inner_nontrivial += 1;

    // an index hunk of more than 32 MiB as the basis of the second backup
    crate::engine::heartbeat();
    let (opts, tree) = crate::probes::big_hunk_tree();
    let sub = cx.dir("big-hunk");
    std::fs::create_dir_all(&sub).unwrap();
    let mut cx2 = crate::engine::sub_cx(cx, sub.clone());
    run_twice(opts, opts, &tree, &mut cx2).map_err(|mut f| {
        f.signature = format!("{}/probe-big-hunk", f.signature);
        f
    })?;
    crate::engine::force_remove(&sub);
    cx.add_evals(1);
    cx.inner_nontrivial += 1;

    // Two opened values of one archive: the tree is stored through one of them while the
    // other one, opened earlier, holds its block directory; the unchanged tree backed up
    // through that one must not store anything again.
    {
        crate::engine::heartbeat();
        let sub = cx.dir("two-handles");
        std::fs::create_dir_all(&sub).unwrap();
        let m = crate::probes::plain_meta();
        let mut t = Tree::empty_root(tree::Meta { mode: 0o755, ..m });
        for (name, pool, len) in [("a", 2u8, 300u32), ("b", 3, 5000), ("c", 4, 40), ("d", 5, 1), ("e", 6, 900), ("f", 7, 2500)] {
            t.0.insert(format!("/{name}"), tree::Node { kind: tree::Kind::File { pool, len }, meta: m });
        }
        let w = World::new(&sub, &t);
        let r = ops::backup_through_two_handles(&w.arch, &w.src, Opts { hunk: 3, block: 1000, cap: 400 });
        ensure!(r.clean(), "C14/probe-two-handles/backup-error", "{}", r.describe());
        let stats = r.result.as_ref().unwrap();
        ensure!(
            stats.written_blocks == 0 && stats.errors == 0 && stats.new_files == 0 && stats.modified_files == 0 && stats.unmodified_files == stats.files,
            "C14/unchanged-tree-files-read-again/probe-two-handles",
            "the unchanged tree backed up through an archive value opened before another one stored it: {} files, {} unmodified, {} modified, {} new, {} blocks written, {} errors",
            stats.files,
            stats.unmodified_files,
            stats.modified_files,
            stats.new_files,
            stats.written_blocks,
            stats.errors
        );
        let ra = format::scan(&w.arch);
        ensure!(
            addrs_by_path(&ra, 0) == addrs_by_path(&ra, 1) && !addrs_by_path(&ra, 1).is_empty(),
            "C14/addresses-differ/probe-two-handles",
            "versions 0 and 1 record different addresses"
        );
        crate::engine::force_remove(&sub);
        cx.add_evals(1);
        cx.inner_nontrivial += 1;
    }

    // a basis of two hunks with the default options (more than 100 000 entries)
    crate::engine::heartbeat();
    let (opts, tree) = crate::probes::over_default_hunk_tree();
    let sub = cx.dir("over-default-hunk");
    std::fs::create_dir_all(&sub).unwrap();
    let mut cx2 = crate::engine::sub_cx(cx, sub.clone());
    run_twice(opts, opts, &tree, &mut cx2).map_err(|mut f| {
        f.signature = format!("{}/probe-over-default-hunk", f.signature);
        f
    })?;
    crate::engine::force_remove(&sub);
    cx.add_evals(1);
    cx.inner_nontrivial += 1;

    crate::engine::heartbeat();
    let o = Opts { hunk: 2, block: 1 << 16, cap: 1 << 20 };
    let sc = Scenario {
        initial: tree::wide_tree(400, 1, 5, crate::probes::plain_meta()),
        prefix: vec![crate::history::Op::Backup(o)],
        edits: vec![crate::history::Edit::AddFile {
            dir: 0xFFFF,
            name: "a-early".into(),
            pool: 7,
            len: 77,
            meta: crate::probes::plain_meta(),
        }],
        opts: o,
        id_spread: 1,
        headless_band: 0,
    };
    let sub = cx.dir("resume-200-hunks");
    std::fs::create_dir_all(&sub).unwrap();
    let mut cx2 = crate::engine::sub_cx(cx, sub.clone());
    cx2.tier = Tier::Quick;
    cx2.only_inner = None;
    PROBE_THIN.with(|t| t.set(20));
    let r = run_resume(&sc, &mut cx2);
    PROBE_THIN.with(|t| t.set(0));
    r.map_err(|mut f| {
        f.signature = format!("{}/probe-resume-200-hunks", f.signature);
        f
    })?;
    crate::engine::force_remove(&sub);
    cx.add_evals(cx2.evals);
    cx.inner_nontrivial += cx2.inner_nontrivial;

    // the same relation when the interrupted band sits 12 000 ids above its basis
    crate::engine::heartbeat();
    let o = Opts { hunk: 2, block: 1 << 16, cap: 1 << 20 };
    let sc = Scenario {
        initial: tree::wide_tree(40, 2, 5, crate::probes::plain_meta()),
        prefix: vec![crate::history::Op::Backup(o)],
        edits: vec![],
        opts: Opts { hunk: 3, ..o },
        id_spread: 1,
        headless_band: 0,
    };
    let sub = cx.dir("resume-wide-id-gap");
    std::fs::create_dir_all(&sub).unwrap();
    let mut cx2 = crate::engine::sub_cx(cx, sub.clone());
    cx2.tier = Tier::Quick;
    cx2.only_inner = None;
    PROBE_THIN.with(|t| t.set(8));
    PROBE_GAP.with(|t| t.set(12_000));
    let r = run_resume(&sc, &mut cx2);
    PROBE_THIN.with(|t| t.set(0));
    PROBE_GAP.with(|t| t.set(0));
    r.map_err(|mut f| {
        f.signature = format!("{}/probe-resume-wide-id-gap", f.signature);
        f
    })?;
    crate::engine::force_remove(&sub);
    cx.add_evals(cx2.evals);
    cx.inner_nontrivial += cx2.inner_nontrivial;
    Ok(())
}

thread_local! {
    /// When non-zero, run_resume moves the interrupted band this many ids up (used by the probe).
    static PROBE_GAP: std::cell::Cell<u32> = const { std::cell::Cell::new(0) };
    /// When non-zero, run_resume thins its crash points to this many (used by the probe).
    static PROBE_THIN: std::cell::Cell<usize> = const { std::cell::Cell::new(0) };
}

pub fn prop() -> Prop<Case> {
    Prop {
        id: "C14",
        level: "exploration",
        rule: "four case kinds. Twice: (options1, options2, tree) backed up twice untouched: the logged storage trace of run 2 has no write under d/, written_blocks==0, independently decoded addresses per path identical; non-trivial = tree has a combined block and a multi-block file. TwiceAfterReadError (a tenth as many): the same relation when, during the first backup, a later file of the directory being read was replaced by a directory so that reading it failed. Hist: history as C02 with every storage operation logged with the pre-state of its path: no write to a d/ path that exists with non-zero length; non-trivial = >=2 backups with deduplication. Resume: scenario (prefix<=3 ops, edits, options) x every crash point of the backup's trace (before each mutating op + torn variant for writes; quick tier thins to <=60 per scenario), then a resumed backup of the unchanged source: block paths successfully written by run 1 are not written by run 2, every entry the interrupted band recorded keeps its addresses in the resumed band, and every file unchanged (size, mtime) with respect to the stitched basis at the moment of the crash is recorded with the basis entry's addresses; non-trivial = crash point after >=1 block write (counted per (scenario, crash point), distinct by construction). Fixed scale probes per run: the twice-relation on files stored as single blocks of several MiB (two of them identical) and on a version whose single index hunk exceeds 32 MiB, and the resume relation at 20 crash points of a backup over a basis band of 200 two-entry hunks with one file added at the front, and the resume relation at 8 crash points when the interrupted band sits 12 000 ids above its basis; since round 7 a probe with two opened values of one archive: one holds its block directory while the tree is stored through the other, then the unchanged tree is backed up through the first",
        assumptions: &[
            "zero-length leftovers of a killed write may be completed (the documented exception)",
            "crash granularity = one transport operation",
        ],
        cases: |t| t.pick(1500, 60_000),
        strategy,
        run,
        enumerate: Some(enumerate),
        exhaustive: |_| false,
        max_shrink_iters: 300,
    }
}
