use crate::engine::PropDyn;

pub mod c01;

pub fn all() -> Vec<Box<dyn PropDyn>> {
    vec![Box::new(c01::prop())]
}
