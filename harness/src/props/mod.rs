use crate::engine::PropDyn;

pub mod c01;
pub mod c02;
pub mod c03;
pub mod c04;
pub mod c05;
pub mod c06;
pub mod c07;
pub mod c08;
pub mod c09;
pub mod c10;
pub mod c11;
pub mod c12;
pub mod c13;
pub mod c14;
pub mod c15;
pub mod c16;
pub mod c17;
pub mod c18;

pub fn all() -> Vec<Box<dyn PropDyn>> {
    vec![
        Box::new(c01::prop()),
        Box::new(c02::prop()),
        Box::new(c03::prop()),
        Box::new(c04::prop()),
        Box::new(c05::prop()),
        Box::new(c06::prop()),
        Box::new(c07::prop()),
        Box::new(c08::prop()),
        Box::new(c09::prop()),
        Box::new(c10::prop()),
        Box::new(c11::prop()),
        Box::new(c12::prop()),
        Box::new(c13::prop()),
        Box::new(c14::prop()),
        Box::new(c15::prop()),
        Box::new(c16::prop()),
        Box::new(c17::prop()),
        Box::new(c18::prop()),
    ]
}
