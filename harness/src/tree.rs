//! Source-tree model, generator, materialiser and snapshotter.
//!
//! The snapshot side (lstat/readlink/read) shares no code with conserve.

use std::collections::BTreeMap;
use std::ffi::CString;
use std::os::unix::ffi::OsStrExt;
use std::os::unix::fs::MetadataExt;
use std::path::{Path, PathBuf};

use proptest::prelude::*;
use serde::{Deserialize, Serialize};

use crate::ops::Opts;

#[derive(Debug, Clone, PartialEq, Eq, Serialize, Deserialize)]
pub enum Kind {
    Dir,
    /// Bytes are `content_bytes(pool, len)`.
    File { pool: u8, len: u32 },
    Link { target: String },
}

#[derive(Debug, Clone, Copy, PartialEq, Eq, Serialize, Deserialize)]
pub struct Meta {
    pub mode: u32,
    pub mtime_s: i64,
    pub mtime_ns: u32,
    pub uid: u32,
    pub gid: u32,
}

#[derive(Debug, Clone, PartialEq, Eq, Serialize, Deserialize)]
pub struct Node {
    pub kind: Kind,
    pub meta: Meta,
}

impl Node {
    pub fn is_dir(&self) -> bool {
        matches!(self.kind, Kind::Dir)
    }
    pub fn is_file(&self) -> bool {
        matches!(self.kind, Kind::File { .. })
    }
    pub fn is_link(&self) -> bool {
        matches!(self.kind, Kind::Link { .. })
    }
}

/// A tree: apath -> node. Always contains "/" (a Dir); every entry's parent is a Dir entry.
#[derive(Debug, Clone, PartialEq, Eq, Serialize, Deserialize)]
pub struct Tree(pub BTreeMap<String, Node>);

pub fn parent_of(apath: &str) -> Option<&str> {
    if apath == "/" {
        return None;
    }
    let idx = apath.rfind('/').unwrap();
    if idx == 0 { Some("/") } else { Some(&apath[..idx]) }
}

pub fn join(parent: &str, name: &str) -> String {
    if parent == "/" {
        format!("/{name}")
    } else {
        format!("{parent}/{name}")
    }
}

pub fn base_name(apath: &str) -> &str {
    &apath[apath.rfind('/').unwrap() + 1..]
}

/// Byte-wise "p is s or lies under s by whole components".
pub fn under(s: &str, p: &str) -> bool {
    let (sb, pb) = (s.as_bytes(), p.as_bytes());
    if sb == b"/" {
        return true;
    }
    if pb.len() < sb.len() || &pb[..sb.len()] != sb {
        return false;
    }
    pb.len() == sb.len() || pb[sb.len()] == b'/'
}

impl Tree {
    pub fn empty_root(meta: Meta) -> Tree {
        let mut m = BTreeMap::new();
        m.insert(
            "/".to_string(),
            Node {
                kind: Kind::Dir,
                meta,
            },
        );
        Tree(m)
    }

    pub fn dirs(&self) -> Vec<String> {
        self.0
            .iter()
            .filter(|(_, n)| n.is_dir())
            .map(|(p, _)| p.clone())
            .collect()
    }

    pub fn paths(&self) -> Vec<String> {
        self.0.keys().cloned().collect()
    }

    /// Remove `apath` and everything under it.
    pub fn remove_subtree(&mut self, apath: &str) {
        let keys: Vec<String> = self
            .0
            .keys()
            .filter(|k| under(apath, k))
            .cloned()
            .collect();
        for k in keys {
            self.0.remove(&k);
        }
    }

    pub fn check_invariant(&self) {
        assert!(self.0.get("/").map(|n| n.is_dir()).unwrap_or(false));
        for k in self.0.keys() {
            if let Some(p) = parent_of(k) {
                assert!(
                    self.0.get(p).map(|n| n.is_dir()).unwrap_or(false),
                    "parent of {k} missing or not dir"
                );
            }
        }
    }

    pub fn file_count(&self) -> usize {
        self.0.values().filter(|n| n.is_file()).count()
    }
    /// Nesting depth of the deepest entry ("/a" = 1).
    pub fn max_depth(&self) -> usize {
        self.0.keys().map(|p| if p == "/" { 0 } else { p.matches('/').count() }).max().unwrap_or(0)
    }
}

// ---------------------------------------------------------------------------
// Content

/// Deterministic content stream per pool. Pool 0 is zeros, pool 1 a short repeating
/// text, the rest are pseudo-random (xorshift) streams. Files from the same pool share
/// prefixes, so whole-file and aligned-block duplicates are frequent.
pub fn content_bytes(pool: u8, len: u32) -> Vec<u8> {
    let len = len as usize;
    match pool {
        0 => vec![0u8; len],
        1 => b"the quick brown fox jumps over the lazy dog\n"
            .iter()
            .cycle()
            .take(len)
            .copied()
            .collect(),
        p => {
            let mut x: u64 = 0x9E37_79B9_7F4A_7C15u64 ^ ((p as u64) << 32 | p as u64);
            let mut out = Vec::with_capacity(len);
            while out.len() < len {
                x ^= x << 13;
                x ^= x >> 7;
                x ^= x << 17;
                for b in x.to_le_bytes() {
                    if out.len() < len {
                        out.push(b);
                    }
                }
            }
            out
        }
    }
}

// ---------------------------------------------------------------------------
// Materialise

fn cpath(p: &Path) -> CString {
    CString::new(p.as_os_str().as_bytes()).expect("path has no NUL")
}

pub fn set_meta(path: &Path, node_is_link: bool, meta: &Meta) {
    let c = cpath(path);
    unsafe {
        let r = libc::lchown(c.as_ptr(), meta.uid, meta.gid);
        assert_eq!(r, 0, "lchown {path:?}: {}", std::io::Error::last_os_error());
        if !node_is_link {
            let r = libc::chmod(c.as_ptr(), meta.mode as libc::mode_t);
            assert_eq!(r, 0, "chmod {path:?}: {}", std::io::Error::last_os_error());
        }
    }
    set_mtime(path, meta.mtime_s, meta.mtime_ns);
}

pub fn set_mtime(path: &Path, s: i64, ns: u32) {
    let c = cpath(path);
    let times = [
        libc::timespec {
            tv_sec: s,
            tv_nsec: ns as i64,
        },
        libc::timespec {
            tv_sec: s,
            tv_nsec: ns as i64,
        },
    ];
    unsafe {
        let r = libc::utimensat(
            libc::AT_FDCWD,
            c.as_ptr(),
            times.as_ptr(),
            libc::AT_SYMLINK_NOFOLLOW,
        );
        assert_eq!(r, 0, "utimensat {path:?}: {}", std::io::Error::last_os_error());
    }
}

pub fn fs_path(root: &Path, apath: &str) -> PathBuf {
    if apath == "/" {
        root.to_path_buf()
    } else {
        root.join(&apath[1..])
    }
}

thread_local! {
    /// When set, `materialise` makes files that are equal in every respect (content, mode,
    /// owner, mtime) hard links of one another. Only for checks that never edit the tree
    /// afterwards: a change to one name would be a change to the other.
    static LINK_TWINS: std::cell::Cell<bool> = const { std::cell::Cell::new(false) };
}

pub fn set_link_twins(on: bool) {
    LINK_TWINS.with(|c| c.set(on));
}

/// Make the `j`-th file of the tree equal to the `i`-th in content and metadata (twins).
pub fn make_twins(tree: &mut Tree, i: u16, j: u16) -> bool {
    let files: Vec<String> = tree.0.iter().filter(|(_, n)| matches!(n.kind, Kind::File { len, .. } if len > 0)).map(|(p, _)| p.clone()).collect();
    if files.len() < 2 {
        return false;
    }
    let a = (i as usize * files.len()) >> 16;
    let mut b = (j as usize * files.len()) >> 16;
    if a == b {
        b = (b + 1) % files.len();
    }
    let node = tree.0[&files[a]].clone();
    tree.0.insert(files[b].clone(), node);
    true
}

/// Write the tree into `root` (which must not exist or be an empty dir).
pub fn materialise(tree: &Tree, root: &Path) {
    let link_twins = LINK_TWINS.with(|c| c.get());
    let mut first_of: BTreeMap<(u8, u32, u32, i64, u32, u32, u32), PathBuf> = BTreeMap::new();
    for (apath, node) in &tree.0 {
        let p = fs_path(root, apath);
        if link_twins {
            if let Kind::File { pool, len } = &node.kind {
                if *len > 0 {
                    let m = &node.meta;
                    let key = (*pool, *len, m.mode, m.mtime_s, m.mtime_ns, m.uid, m.gid);
                    if let Some(first) = first_of.get(&key) {
                        std::fs::hard_link(first, &p).unwrap_or_else(|e| panic!("link {p:?}: {e}"));
                        continue;
                    }
                    first_of.insert(key, p.clone());
                }
            }
        }
        match &node.kind {
            Kind::Dir => {
                if apath == "/" {
                    std::fs::create_dir_all(&p).expect("create root");
                } else {
                    std::fs::create_dir(&p).unwrap_or_else(|e| panic!("mkdir {p:?}: {e}"));
                }
            }
            Kind::File { pool, len } => {
                std::fs::write(&p, content_bytes(*pool, *len))
                    .unwrap_or_else(|e| panic!("write {p:?}: {e}"));
            }
            Kind::Link { target } => {
                std::os::unix::fs::symlink(target, &p)
                    .unwrap_or_else(|e| panic!("symlink {p:?}: {e}"));
            }
        }
    }
    apply_all_meta(tree, root);
}

/// Put names that are not valid UTF-8 into the directory `dir` of a materialised tree: two
/// empty files and two empty directories whose names differ only in their invalid bytes
/// (Latin-1 `caf\xe9` / `caf\xe8`, `d\xff` / `d\xfe`), then re-apply the metadata. Conserve
/// does not back such names up (a documented non-goal); what it does with the rest of the
/// tree must not suffer.
pub fn add_undecodable_twins(tree: &Tree, root: &Path, dir: &str) {
    use std::ffi::OsStr;
    let d = fs_path(root, dir);
    for name in [&b"caf\xe9"[..], &b"caf\xe8"[..]] {
        let _ = std::fs::write(d.join(OsStr::from_bytes(name)), b"");
    }
    for name in [&b"d\xff"[..], &b"d\xfe"[..]] {
        let _ = std::fs::create_dir(d.join(OsStr::from_bytes(name)));
    }
    apply_all_meta(tree, root);
}

/// (Re-)apply metadata to every node, children before parents.
pub fn apply_all_meta(tree: &Tree, root: &Path) {
    // Reverse plain string order puts children before their parents.
    for (apath, node) in tree.0.iter().rev() {
        set_meta(&fs_path(root, apath), node.is_link(), &node.meta);
    }
}

/// Bring an existing materialised directory from `old` to `new` with minimal filesystem
/// operations (so that untouched files keep their inode; not that conserve cares), then
/// re-apply all metadata.
pub fn rematerialise(old: &Tree, new: &Tree, root: &Path) {
    // Make every directory writable/searchable first is unnecessary as root.
    // Remove things that are gone or changed kind/content (deepest first).
    for (apath, onode) in old.0.iter().rev() {
        if apath == "/" {
            continue;
        }
        let keep = match new.0.get(apath) {
            Some(n) => n.kind == onode.kind,
            None => false,
        };
        if !keep {
            let p = fs_path(root, apath);
            if onode.is_dir() {
                let _ = std::fs::remove_dir_all(&p);
            } else {
                let _ = std::fs::remove_file(&p);
            }
        }
    }
    for (apath, node) in &new.0 {
        if apath == "/" {
            continue;
        }
        let same = old.0.get(apath).map(|o| o.kind == node.kind).unwrap_or(false);
        if same {
            continue;
        }
        let p = fs_path(root, apath);
        match &node.kind {
            Kind::Dir => std::fs::create_dir(&p).unwrap_or_else(|e| panic!("mkdir {p:?}: {e}")),
            Kind::File { pool, len } => std::fs::write(&p, content_bytes(*pool, *len))
                .unwrap_or_else(|e| panic!("write {p:?}: {e}")),
            Kind::Link { target } => std::os::unix::fs::symlink(target, &p)
                .unwrap_or_else(|e| panic!("symlink {p:?}: {e}")),
        }
    }
    apply_all_meta(new, root);
}

// ---------------------------------------------------------------------------
// Snapshot

#[derive(Debug, Clone, PartialEq, Eq)]
pub struct SnapNode {
    /// 'd', 'f', 'l', or '?' for anything else
    pub kind: char,
    pub content: Option<Vec<u8>>,
    pub target: Option<String>,
    pub mode: u32,
    pub mtime: (i64, i64),
    pub uid: u32,
    pub gid: u32,
    pub ctime: (i64, i64),
    pub ino: u64,
}

pub type Snapshot = BTreeMap<String, SnapNode>;

pub fn snapshot(root: &Path) -> Snapshot {
    let mut out = BTreeMap::new();
    snap_rec(root, "/", &mut out);
    out
}

fn snap_rec(path: &Path, apath: &str, out: &mut Snapshot) {
    let md = match std::fs::symlink_metadata(path) {
        Ok(m) => m,
        Err(_) => return,
    };
    let ft = md.file_type();
    let kind = if ft.is_dir() {
        'd'
    } else if ft.is_file() {
        'f'
    } else if ft.is_symlink() {
        'l'
    } else {
        '?'
    };
    let content = if kind == 'f' {
        Some(std::fs::read(path).unwrap_or_else(|e| panic!("read {path:?}: {e}")))
    } else {
        None
    };
    let target = if kind == 'l' {
        Some(
            std::fs::read_link(path)
                .unwrap()
                .to_string_lossy()
                .into_owned(),
        )
    } else {
        None
    };
    out.insert(
        apath.to_string(),
        SnapNode {
            kind,
            content,
            target,
            mode: md.mode() & 0o7777,
            mtime: (md.mtime(), md.mtime_nsec()),
            uid: md.uid(),
            gid: md.gid(),
            ctime: (md.ctime(), md.ctime_nsec()),
            ino: md.ino(),
        },
    );
    if kind == 'd' {
        let mut names: Vec<_> = std::fs::read_dir(path)
            .unwrap_or_else(|e| panic!("read_dir {path:?}: {e}"))
            .map(|e| e.unwrap().file_name())
            .collect();
        names.sort();
        for n in names {
            let name = n.to_string_lossy().into_owned();
            snap_rec(&path.join(&n), &join(apath, &name), out);
        }
    }
}

/// What a faithful restore of `tree` must look like.
pub fn expected(tree: &Tree) -> Snapshot {
    tree.0
        .iter()
        .map(|(p, n)| {
            let (kind, content, target) = match &n.kind {
                Kind::Dir => ('d', None, None),
                Kind::File { pool, len } => ('f', Some(content_bytes(*pool, *len)), None),
                Kind::Link { target } => ('l', None, Some(target.clone())),
            };
            (
                p.clone(),
                SnapNode {
                    kind,
                    content,
                    target,
                    mode: n.meta.mode & 0o7777,
                    mtime: (n.meta.mtime_s, n.meta.mtime_ns as i64),
                    uid: n.meta.uid,
                    gid: n.meta.gid,
                    ctime: (0, 0),
                    ino: 0,
                },
            )
        })
        .collect()
}

#[derive(Debug, Clone, Copy)]
pub struct CmpOpts {
    /// Compare the root directory's own metadata.
    pub root_meta: bool,
    /// Compare mtimes of directories.
    pub dir_mtime: bool,
    /// Compare ctime and inode (for "untouched" checks).
    pub identity: bool,
    /// Compare modification times at all (off when comparing two restores of a damaged
    /// version: a file whose restore fails keeps the time of its creation).
    pub mtime: bool,
}

impl CmpOpts {
    pub fn restore() -> CmpOpts {
        CmpOpts {
            root_meta: true,
            dir_mtime: true,
            identity: false,
            mtime: true,
        }
    }
    pub fn untouched() -> CmpOpts {
        CmpOpts {
            root_meta: true,
            dir_mtime: true,
            identity: true,
            mtime: true,
        }
    }
}

fn short(b: &Option<Vec<u8>>) -> String {
    match b {
        None => "-".into(),
        Some(v) => {
            let h = crate::engine::hash_str(&hex::encode(v));
            format!("{}B#{:08x}", v.len(), h as u32)
        }
    }
}

/// First difference between two snapshots, if any. `want` is the expectation.
pub fn first_diff(want: &Snapshot, got: &Snapshot, o: CmpOpts) -> Option<(String, String)> {
    for (p, w) in want {
        let Some(g) = got.get(p) else {
            return Some(("missing".into(), format!("{p}: expected {} but absent", w.kind)));
        };
        if w.kind != g.kind {
            return Some(("kind".into(), format!("{p}: kind {} != {}", g.kind, w.kind)));
        }
        if w.content != g.content {
            return Some((
                "content".into(),
                format!("{p}: content {} != expected {}", short(&g.content), short(&w.content)),
            ));
        }
        if w.target != g.target {
            return Some(("target".into(), format!("{p}: target {:?} != {:?}", g.target, w.target)));
        }
        if p == "/" && !o.root_meta {
            continue;
        }
        if w.kind != 'l' && w.mode != g.mode {
            return Some(("mode".into(), format!("{p}: mode {:o} != expected {:o}", g.mode, w.mode)));
        }
        if o.mtime && (w.kind != 'd' || o.dir_mtime) && w.mtime != g.mtime {
            return Some((
                "mtime".into(),
                format!("{p}: mtime {:?} != expected {:?}", g.mtime, w.mtime),
            ));
        }
        if w.uid != g.uid || w.gid != g.gid {
            return Some((
                "owner".into(),
                format!("{p}: owner {}:{} != expected {}:{}", g.uid, g.gid, w.uid, w.gid),
            ));
        }
        if o.identity && (w.ctime != g.ctime || w.ino != g.ino) {
            return Some((
                "identity".into(),
                format!(
                    "{p}: ctime/ino {:?}/{} != before {:?}/{}",
                    g.ctime, g.ino, w.ctime, w.ino
                ),
            ));
        }
    }
    for p in got.keys() {
        if !want.contains_key(p) {
            return Some(("extra".into(), format!("{p}: present but not expected")));
        }
    }
    None
}

// ---------------------------------------------------------------------------
// Generators

/// Names that mean something to conserve or to filesystems; legal in a source tree.
pub const SPECIAL_NAMES: &[&str] = &[
    "lost+found", "CONSERVE", "GC_LOCK", "BANDHEAD", "BANDTAIL", "d", "i", "b0000", "b0001", ".DS_Store",
    "00000", "000000000", "CACHEDIR.TAG.bak", "con", "nul",
];

/// Names made of glob metacharacters, each with siblings in NAMES that it would match if it
/// were (wrongly) read as a pattern: `a?` ~ ab, a., a-; `a*` ~ a, ab, a.b; `[a]` ~ a; ...
pub const GLOB_NAMES: &[&str] = &[
    "a?", "a*", "[a]", "a[b]", "{a,b}", "a\\b", "*", "?", "[", "]", "**", "[!a]", "a[", "\\", "a{", "*.b", "[a-z]",
];

pub const NAMES: &[&str] = &[
    "a", "b", "ab", "a.b", "a b", "a-", "a!", "a+", "a0", "a~", "A", "z", "é", "éa", "日", "日本",
    "😀", ".x", ".a", "~", "-", "0", "x.txt", "b.c", "c", "d", "ab.c", "a_b", " ", "#", "a.",
    "é.d", "aé", "...", "a\u{301}",
    // names that end (or begin) with white space of one kind or another, beside `a`, `b`, `é`, `日`
    "a ", " a", "b\t", "é\u{a0}", "日\u{3000}", "a\n",
];

pub const UIDS: &[u32] = &[0, 1, 2, 7, 65534];
pub const GIDS: &[u32] = &[0, 1, 2, 7, 65534];

pub const PREFIXY_NAMES: &[&str] = &[
    "a", "ab", "a.b", "a b", "a-", "é", "éa", "é.d", "日", "日本", "aé", "a/", "😀", "😀a", "b",
];

pub fn name_strategy_for(cfg: TreeCfg) -> BoxedStrategy<String> {
    if cfg.prefixy_names {
        prop_oneof![
            6 => prop::sample::select(PREFIXY_NAMES).prop_map(|s| s.trim_end_matches('/').to_string()),
            2 => name_strategy(),
        ]
        .boxed()
    } else if cfg.max_len >= 8192 || cfg.long_names {
        name_strategy_with_long()
    } else {
        name_strategy()
    }
}

pub fn name_strategy() -> BoxedStrategy<String> {
    prop_oneof![
        6 => prop::sample::select(NAMES).prop_map(|s| s.to_string()),
        2 => "[a-z0-9 .!#+~_-]{1,6}".prop_map(|s| if s == "." || s == ".." { format!("_{s}") } else { s }),
        1 => "[a-cé日]{1,3}",
        1 => prop::sample::select(SPECIAL_NAMES).prop_map(|s| s.to_string()),
        1 => prop::sample::select(GLOB_NAMES).prop_map(|s| s.to_string()),
    ]
    .boxed()
}

/// Like `name_strategy`, rarely a very long name (the longest a Linux filesystem takes
/// is 255 bytes).
pub fn name_strategy_with_long() -> BoxedStrategy<String> {
    prop_oneof![
        60 => name_strategy(),
        1 => (prop::sample::select(vec!["x", "é", "a.", "日"]), 40usize..80).prop_map(|(u, n)| u.repeat(n).chars().take(250 / u.len().max(1)).collect::<String>()),
        // at and just below the limit itself: 251-255 bytes exactly
        1 => (prop::sample::select(vec!["x", "é", "a.", "日", "😀"]), 251usize..=255).prop_map(|(u, total)| {
            let mut s = u.repeat(total / u.len());
            while s.len() < total {
                s.push('x');
            }
            s
        }),
    ]
    .boxed()
}

#[derive(Debug, Clone, Copy)]
pub struct TreeCfg {
    pub max_depth: u32,
    pub max_children: usize,
    pub max_len: u32,
    pub setid_modes: bool,
    /// Allow mtimes before the epoch with a sub-second part.
    pub neg_frac_mtime: bool,
    pub links: bool,
    pub owners: bool,
    pub plain_meta: bool,
    /// Bias names to multi-byte characters and siblings that textually extend one another.
    pub prefixy_names: bool,
    /// Rarely a name of 160-250 bytes (also chosen when max_len >= 8192).
    pub long_names: bool,
}

impl TreeCfg {
    pub fn full() -> TreeCfg {
        TreeCfg {
            max_depth: 4,
            max_children: 6,
            max_len: 8192,
            setid_modes: true,
            neg_frac_mtime: true,
            links: true,
            owners: true,
            plain_meta: false,
            prefixy_names: false,
            long_names: true,
        }
    }
    /// Small trees with ordinary metadata, for checks where metadata is not the point.
    pub fn plain() -> TreeCfg {
        TreeCfg {
            max_depth: 3,
            max_children: 5,
            max_len: 4096,
            setid_modes: false,
            neg_frac_mtime: false,
            links: true,
            owners: false,
            plain_meta: true,
            prefixy_names: false,
            long_names: false,
        }
    }
}

pub fn mtime_strategy(cfg: TreeCfg) -> BoxedStrategy<(i64, u32)> {
    if cfg.plain_meta {
        return (1_500_000_000i64..1_500_000_100i64, prop_oneof![Just(0u32), 0u32..1_000_000_000])
            .boxed();
    }
    let secs = prop_oneof![
        2 => (-(1i64 << 31))..0i64,
        1 => Just(0i64),
        1 => Just(-1i64),
        4 => 1_500_000_000i64..1_800_000_000i64,
        1 => (1i64 << 32)..(1i64 << 33),
        1 => 1i64..1000i64,
        // beyond what fits in 64-bit nanoseconds (years < 1678 and > 2262), up to year ~9000
        1 => prop_oneof![(1i64 << 33)..220_000_000_000i64, (-30_000_000_000i64)..(-(1i64 << 31)), Just(9_223_372_037i64), Just(-9_223_372_037i64)],
    ];
    let nanos = prop_oneof![
        3 => Just(0u32),
        1 => Just(1u32),
        1 => Just(999_999_999u32),
        1 => Just(500_000_000u32),
        2 => 0u32..1_000_000_000u32,
    ];
    let allow = cfg.neg_frac_mtime;
    (secs, nanos)
        .prop_map(move |(s, n)| if !allow && s < 0 { (s, 0) } else { (s, n) })
        .boxed()
}

pub fn mode_strategy(cfg: TreeCfg, dir: bool) -> BoxedStrategy<u32> {
    if cfg.plain_meta {
        return if dir {
            prop_oneof![Just(0o755u32), Just(0o700u32), Just(0o775u32)].boxed()
        } else {
            prop_oneof![Just(0o644u32), Just(0o600u32), Just(0o755u32), Just(0o444u32)].boxed()
        };
    }
    let top = if cfg.setid_modes { 0o7777u32 } else { 0o777u32 };
    let base = prop_oneof![
        4 => 0u32..=top,
        1 => Just(0u32),
        1 => Just(0o444u32),
        1 => Just(0o555u32),
        2 => Just(0o644u32),
        2 => Just(0o755u32),
    ];
    if cfg.setid_modes {
        prop_oneof![
            3 => base,
            1 => (0u32..=0o777, prop::sample::select(vec![0o4000u32, 0o2000, 0o1000, 0o6000, 0o7000]))
                .prop_map(|(m, s)| m | s),
        ]
        .boxed()
    } else {
        base.boxed()
    }
}

pub fn meta_strategy(cfg: TreeCfg, dir: bool) -> BoxedStrategy<Meta> {
    let owners = if cfg.owners {
        (
            prop_oneof![3 => Just(0u32), 2 => prop::sample::select(UIDS)],
            prop_oneof![3 => Just(0u32), 2 => prop::sample::select(GIDS)],
        )
            .boxed()
    } else {
        (Just(0u32), Just(0u32)).boxed()
    };
    (mode_strategy(cfg, dir), mtime_strategy(cfg), owners)
        .prop_map(|(mode, (mtime_s, mtime_ns), (uid, gid))| Meta {
            mode,
            mtime_s,
            mtime_ns,
            uid,
            gid,
        })
        .boxed()
}

/// File length classes, resolved against the backup options when the tree is built, so
/// that options and tree shape stay independent strategies (better shrinking).
#[derive(Debug, Clone, Copy)]
pub enum LenSpec {
    Zero,
    One,
    Small(u32),
    AroundCap(i64),
    Blocks(i64, i64),
    Raw(u32),
    /// Rare: far larger than everything else (tens to hundreds of blocks per file).
    Big(u32),
}

impl LenSpec {
    pub fn resolve(self, opts: Opts, max_len: u32) -> u32 {
        let cap = opts.cap.min(1 << 30) as i64;
        let block = opts.block.min(1 << 30) as i64;
        let max = max_len as i64;
        let clamp = |v: i64| -> u32 { v.clamp(0, max) as u32 };
        match self {
            LenSpec::Zero => 0,
            LenSpec::One => 1,
            LenSpec::Small(n) => n.min(max_len),
            LenSpec::AroundCap(d) => clamp(cap + d),
            LenSpec::Blocks(k, d) => {
                let v = k * block + d;
                if v > max { clamp(block + d) } else { clamp(v) }
            }
            LenSpec::Raw(n) => n.min(max_len),
            // only trees generated with the full configuration (max_len >= 8192) get big files
            LenSpec::Big(n) => if max_len >= 8192 { n } else { n.min(max_len) },
        }
    }
}

pub fn len_strategy() -> BoxedStrategy<LenSpec> {
    prop_oneof![
        10 => Just(LenSpec::Zero),
        10 => Just(LenSpec::One),
        30 => (2u32..64).prop_map(LenSpec::Small),
        20 => (-1i64..=1).prop_map(LenSpec::AroundCap),
        40 => (1i64..=4, -1i64..=1).prop_map(|(k, d)| LenSpec::Blocks(k, d)),
        20 => (0u32..=5000).prop_map(LenSpec::Raw),
        1 => prop_oneof![20_000u32..70_000, Just(65_536u32), Just(65_535u32), 70_000u32..300_000].prop_map(LenSpec::Big),
    ]
    .boxed()
}

pub fn link_target_strategy() -> BoxedStrategy<String> {
    prop_oneof![
        3 => prop::sample::select(vec![
            "nowhere", "../x", "a", "/", "..", ".", "a/b", "/abs/none", "é", "../../..", "b/", "日本/é",
        ]).prop_map(|s| s.to_string()),
        2 => name_strategy(),
        1 => (name_strategy(), name_strategy()).prop_map(|(a, b)| format!("{a}/{b}")),
    ]
    .boxed()
}

#[derive(Debug, Clone)]
enum GenKind {
    Dir,
    File { pool: u8, len: LenSpec },
    Link { target: String },
}

#[derive(Debug, Clone)]
pub struct GenNode {
    name: String,
    kind: GenKind,
    meta: Meta,
    children: Vec<GenNode>,
}

/// An options-independent tree shape; resolve with `GenTree::build`.
#[derive(Debug, Clone)]
pub struct GenTree {
    root_meta: Meta,
    children: Vec<GenNode>,
    max_len: u32,
    /// Node budget beyond the usual 40: the length of a deep directory chain, if any.
    extra_budget: usize,
}

fn gen_children(cfg: TreeCfg, depth: u32) -> BoxedStrategy<Vec<GenNode>> {
    let file = (
        name_strategy_for(cfg),
        (0u8..8, len_strategy()),
        meta_strategy(cfg, false),
    )
        .prop_map(|(name, (pool, len), meta)| GenNode {
            name,
            kind: GenKind::File { pool, len },
            meta,
            children: vec![],
        });
    let link = (name_strategy_for(cfg), link_target_strategy(), meta_strategy(cfg, false)).prop_map(
        |(name, target, meta)| GenNode {
            name,
            kind: GenKind::Link { target },
            meta,
            children: vec![],
        },
    );
    let leaf_dir = (name_strategy_for(cfg), meta_strategy(cfg, true)).prop_map(|(name, meta)| GenNode {
        name,
        kind: GenKind::Dir,
        meta,
        children: vec![],
    });
    let mut choices: Vec<(u32, BoxedStrategy<GenNode>)> = vec![(6, file.boxed())];
    if cfg.links {
        choices.push((2, link.boxed()));
    }
    if depth + 1 < cfg.max_depth {
        let sub = (
            name_strategy_for(cfg),
            meta_strategy(cfg, true),
            gen_children(cfg, depth + 1),
        )
            .prop_map(|(name, meta, children)| GenNode {
                name,
                kind: GenKind::Dir,
                meta,
                children,
            });
        choices.push((3, sub.boxed()));
    } else {
        choices.push((2, leaf_dir.boxed()));
    }
    let node = proptest::strategy::Union::new_weighted(choices);
    let maxc = if depth == 0 { cfg.max_children + 2 } else { cfg.max_children };
    prop::collection::vec(node, 0..=maxc).boxed()
}

fn flatten(
    parent: &str,
    nodes: &[GenNode],
    opts: Opts,
    max_len: u32,
    out: &mut BTreeMap<String, Node>,
    budget: &mut usize,
) {
    for n in nodes {
        if *budget == 0 {
            return;
        }
        let p = join(parent, &n.name);
        if out.contains_key(&p) {
            continue; // duplicate name: first wins
        }
        *budget -= 1;
        let kind = match &n.kind {
            GenKind::Dir => Kind::Dir,
            GenKind::File { pool, len } => Kind::File {
                pool: *pool,
                len: len.resolve(opts, max_len),
            },
            GenKind::Link { target } => Kind::Link {
                target: target.clone(),
            },
        };
        let is_dir = matches!(kind, Kind::Dir);
        out.insert(p.clone(), Node { kind, meta: n.meta });
        if is_dir {
            flatten(&p, &n.children, opts, max_len, out, budget);
        }
    }
}

impl GenTree {
    pub fn build(&self, opts: Opts) -> Tree {
        let mut t = Tree::empty_root(self.root_meta);
        let mut budget = 40usize + self.extra_budget;
        flatten("/", &self.children, opts, self.max_len, &mut t.0, &mut budget);
        t
    }
}

/// One level of a deep directory chain: the directory's name and metadata, and possibly a
/// small file beside it.
fn chain_level(cfg: TreeCfg) -> BoxedStrategy<(String, Meta, Option<GenNode>)> {
    let beside = (
        "[a-c.~ -]{1,2}".prop_filter("not . or ..", |n: &String| n != "." && n != ".."),
        (0u8..8, len_strategy()),
        meta_strategy(cfg, false),
    )
        .prop_map(|(name, (pool, len), meta)| GenNode {
            name,
            kind: GenKind::File { pool, len },
            meta,
            children: vec![],
        });
    (
        "[a-cé.~ -]{1,2}".prop_filter("not . or ..", |n: &String| n != "." && n != ".."),
        meta_strategy(cfg, true),
        prop::option::weighted(0.3, beside),
    )
        .boxed()
}

pub fn gen_tree_strategy(cfg: TreeCfg) -> BoxedStrategy<GenTree> {
    // One tree in sixteen is *deep*: what was generated hangs below a chain of 5-40 nested
    // directories (short names, own metadata, now and then a file beside the next level),
    // so nesting reaches 9-44 levels instead of stopping at max_depth.
    let chain = prop_oneof![
        15 => Just(Vec::new()),
        1 => prop::collection::vec(chain_level(cfg), 5..=40),
    ];
    (meta_strategy(cfg, true), gen_children(cfg, 0), chain)
        .prop_map(move |(root_meta, children, chain)| {
            let extra_budget = chain.len() + chain.iter().filter(|l| l.2.is_some()).count();
            let mut children = children;
            for (name, meta, beside) in chain.into_iter().rev() {
                let dir = GenNode {
                    name,
                    kind: GenKind::Dir,
                    meta,
                    children,
                };
                children = match beside {
                    Some(f) if f.name != dir.name => vec![f, dir],
                    _ => vec![dir],
                };
            }
            GenTree {
                root_meta,
                children,
                max_len: cfg.max_len,
                extra_budget,
            }
        })
        .boxed()
}

/// Tree for fixed options.
pub fn tree_strategy(cfg: TreeCfg, opts: Opts) -> BoxedStrategy<Tree> {
    gen_tree_strategy(cfg).prop_map(move |g| g.build(opts)).boxed()
}

/// Independent options and tree.
pub fn opts_tree_strategy(cfg: TreeCfg) -> BoxedStrategy<(Opts, Tree)> {
    (opts_strategy(), gen_tree_strategy(cfg))
        .prop_map(|(opts, g)| (opts, g.build(opts)))
        .boxed()
}

pub fn opts_strategy() -> BoxedStrategy<Opts> {
    (
        prop_oneof![6 => 1usize..=12, 1 => Just(100_000usize)],
        // (a tenth between the small range and the default: with the rare files of 20-300 KB
        // these give blocks of tens of KB)
        prop_oneof![3 => 1usize..=64, 4 => 64usize..=2048, 1 => 2049usize..=200_000, 1 => Just(20usize << 20)],
        prop_oneof![1 => Just(0u64), 4 => 0u64..=3000, 1 => Just(1u64 << 20)],
    )
        .prop_map(|(hunk, block, cap)| Opts { hunk, block, cap })
        .boxed()
}

/// Verify the ids we use for owners have names on this machine (conserve stores names).
pub fn check_owner_ids() {
    let passwd = std::fs::read_to_string("/etc/passwd").unwrap_or_default();
    let group = std::fs::read_to_string("/etc/group").unwrap_or_default();
    for u in UIDS {
        assert!(
            passwd.lines().any(|l| l.split(':').nth(2) == Some(&u.to_string())),
            "uid {u} has no name in /etc/passwd"
        );
    }
    for g in GIDS {
        assert!(
            group.lines().any(|l| l.split(':').nth(2) == Some(&g.to_string())),
            "gid {g} has no name in /etc/group"
        );
    }
}

/// "Wide" trees: many files in a few directories, sized so that most files get a block of
/// their own (crossing conserve's 100-entry block cache) and, with a hunk size of 1 and
/// more than 10 000 entries, a second index sub-directory. `n` files spread over `dirs`.
pub fn wide_tree(n: usize, dirs: usize, len_base: u32, meta: Meta) -> Tree {
    let mut t = Tree::empty_root(Meta { mode: 0o755, ..meta });
    let dirs = dirs.max(1);
    for d in 0..dirs {
        t.0.insert(format!("/w{d}"), Node { kind: Kind::Dir, meta: Meta { mode: 0o755, ..meta } });
    }
    for i in 0..n {
        let d = i % dirs;
        // distinct (pool, len) pairs give distinct contents
        let pool = 2 + (i % 6) as u8;
        let len = len_base + (i / 6) as u32;
        t.0.insert(
            format!("/w{d}/f{i:05}"),
            Node {
                kind: Kind::File { pool, len },
                meta: Meta { mode: 0o644, mtime_s: meta.mtime_s + i as i64, ..meta },
            },
        );
    }
    t
}

/// About n files in directories whose names extend one another (`lib`, `lib-extra`,
/// `lib.d`, `lib/sub`, ...), so that the documented order differs from a plain string order
/// at many places of one long index hunk.
pub fn prefixy_wide_tree(n: usize, meta: Meta) -> Tree {
    let mut t = Tree::empty_root(Meta { mode: 0o755, ..meta });
    let dirs = ["lib", "lib-extra", "lib.d", "lib/sub", "lib/sub-2", "lib/sub/x", "a", "a b", "a-", "a/b", "a.b", "é", "éa", "é/d"];
    for d in dirs {
        t.0.insert(format!("/{d}"), Node { kind: Kind::Dir, meta: Meta { mode: 0o755, ..meta } });
    }
    for i in 0..n {
        let d = dirs[i % dirs.len()];
        let pool = 2 + (i % 6) as u8;
        let len = 1 + (i / 6) as u32 % 50;
        let name = if i % 5 == 0 { format!("f{i:04}") } else { format!("f-{i:04}") };
        t.0.insert(
            format!("/{d}/{name}"),
            Node { kind: Kind::File { pool, len }, meta: Meta { mode: 0o644, mtime_s: meta.mtime_s + i as i64, ..meta } },
        );
    }
    t
}

/// (options, tree) for the wide class. `huge` allows the > 10 000-entry variant.
pub fn wide_strategy(huge: bool) -> BoxedStrategy<(Opts, Tree)> {
    let n = if huge {
        prop_oneof![6 => 110usize..320, 1 => 10_001usize..10_030].boxed()
    } else {
        (110usize..320).boxed()
    };
    (n, 1usize..4, 1u32..40, prop_oneof![Just(0u64), Just(20u64)], 1usize..4)
        .prop_map(|(n, dirs, len_base, cap, hunk)| {
            let opts = Opts {
                hunk: if n > 10_000 { 1 } else { hunk * 7 },
                block: 1 << 16,
                cap: if n > 10_000 { 1 << 20 } else { cap },
            };
            let meta = Meta { mode: 0o644, mtime_s: 1_500_000_000, mtime_ns: 0, uid: 0, gid: 0 };
            (opts, wide_tree(n, dirs, len_base, meta))
        })
        .boxed()
}
