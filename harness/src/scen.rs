//! Scenarios for the enumerating checks: an archive state (built from a short history
//! prefix), a new source tree, options; plus helpers to obtain the storage trace of an
//! operation on a scratch copy and to re-create the state for every inner value.

use std::path::{Path, PathBuf};
use std::sync::Arc;

use proptest::prelude::*;
use serde::{Deserialize, Serialize};

use crate::history::{Edit, HistCfg, Op, World, apply_edit, edit_strategy, op_strategy};
use crate::hooks::{Ctl, Key, Logged, Plan, V};
use crate::ops::{self, Hook, Opts};
use crate::tree::{self, Tree, TreeCfg};

#[derive(Debug, Clone, Serialize, Deserialize)]
pub struct Scenario {
    pub initial: Tree,
    /// History prefix building the archive (<= 3 ops).
    pub prefix: Vec<Op>,
    /// Edits applied to the source after the prefix, before the operation under test.
    pub edits: Vec<Edit>,
    /// Options of the operation under test.
    pub opts: Opts,
    /// After the prefix, renumber the existing versions b_i -> b_(i*spread): gaps as left
    /// by many deleted versions (1 = leave them alone).
    #[serde(default = "one")]
    pub id_spread: u32,
    /// After the prefix, a backup is killed just before (1) or while (2: zero-length file)
    /// writing its BANDHEAD, so the newest band directory has no readable head.
    #[serde(default)]
    pub headless_band: u8,
}

fn one() -> u32 {
    1
}

pub fn small_cfg() -> TreeCfg {
    TreeCfg {
        max_depth: 3,
        max_children: 5,
        max_len: 2500,
        ..TreeCfg::plain()
    }
}

/// Options biased to small blocks/caps/hunks so that several flushes happen.
pub fn small_opts() -> BoxedStrategy<Opts> {
    (
        prop_oneof![4 => 1usize..=6, 1 => Just(100_000usize)],
        prop_oneof![3 => 16usize..=200, 2 => 200usize..=1500],
        prop_oneof![1 => Just(0u64), 3 => 20u64..=400, 1 => 400u64..=3000],
    )
        .prop_map(|(hunk, block, cap)| Opts { hunk, block, cap })
        .boxed()
}

pub fn scenario_strategy(interrupts_in_prefix: bool, deletes_in_prefix: bool) -> BoxedStrategy<Scenario> {
    let cfg = HistCfg {
        tree: small_cfg(),
        max_ops: 3,
        interrupts: interrupts_in_prefix,
        deletes: deletes_in_prefix,
    };
    (
        tree::gen_tree_strategy(small_cfg()),
        prop::option::weighted(0.7, small_opts()),
        prop::collection::vec(op_strategy(cfg), 0..=2),
        prop::collection::vec(edit_strategy(small_cfg()), 0..6),
        small_opts(),
        prop_oneof![8 => Just(1u32), 1 => Just(20u32), 1 => Just(3400u32)],
        prop_oneof![8 => Just(0u8), 2 => Just(1u8), 1 => Just(2u8)],
    )
        .prop_map(|(g, first, mut prefix, edits, opts, id_spread, headless_band)| {
            if let Some(o) = first {
                prefix.insert(0, Op::Backup(o));
            }
            Scenario {
                initial: g.build(opts),
                prefix,
                edits,
                opts,
                // (stitching walks back one id at a time: a wide gap below a band without
                // a head costs thousands of operations per run, so keep that combination small)
                id_spread: if headless_band > 0 { id_spread.min(20) } else { id_spread },
                headless_band,
            }
        })
        .boxed()
}

fn format_scan_ids(arch: &Path) -> Vec<u32> {
    crate::format::scan(arch).bands.keys().copied().collect()
}

pub fn copy_dir(from: &Path, to: &Path) {
    std::fs::create_dir_all(to).unwrap();
    for e in std::fs::read_dir(from).unwrap() {
        let e = e.unwrap();
        let ft = e.file_type().unwrap();
        let dst = to.join(e.file_name());
        if ft.is_dir() {
            copy_dir(&e.path(), &dst);
        } else {
            std::fs::copy(e.path(), &dst).unwrap();
        }
    }
}

/// The state before the operation under test.
pub struct Base {
    pub world: World,
    /// Pristine copy of the archive directory, used to reset for every inner value.
    pub pristine: PathBuf,
}

impl Base {
    /// Build the world by running the prefix, then apply the edits to the source.
    pub fn build(scratch: &Path, sc: &Scenario) -> Base {
        let mut world = World::new(scratch, &sc.initial);
        for op in &sc.prefix {
            let _ = world.apply(op);
        }
        if sc.headless_band > 0 {
            let _ = world.backup_killed_at_head(sc.opts, sc.headless_band == 2);
        }
        if sc.id_spread > 1 {
            let ids: Vec<u32> = format_scan_ids(&world.arch);
            for id in ids.iter().rev() {
                if *id > 0 {
                    std::fs::rename(
                        world.arch.join(crate::format::band_dirname(*id)),
                        world.arch.join(crate::format::band_dirname(id * sc.id_spread)),
                    )
                    .unwrap();
                }
            }
            world.bands = std::mem::take(&mut world.bands).into_iter().map(|(k, v)| (k * sc.id_spread, v)).collect();
            world.max_id_seen = world.max_id_seen.map(|m| m * sc.id_spread);
        }
        let old = world.tree.clone();
        for e in &sc.edits {
            apply_edit(&mut world.tree, e);
        }
        world.keep_changes_visible();
        world.tree.check_invariant();
        tree::rematerialise(&old, &world.tree, &world.src);
        let pristine = scratch.join("pristine");
        copy_dir(&world.arch, &pristine);
        Base { world, pristine }
    }

    /// Reset the archive directory to the pristine state.
    pub fn reset(&self) {
        crate::engine::force_remove(&self.world.arch);
        copy_dir(&self.pristine, &self.world.arch);
    }

    /// Run a backup of the current source under `plan`; returns (report, ctl).
    pub fn backup(&self, opts: Opts, plan: Plan) -> (ops::OpReport<ops::BackupOut>, Arc<Ctl>) {
        let ctl = Ctl::new(&self.world.arch, plan);
        let hook: Hook = Some(ctl.clone() as Arc<dyn conserve::transport::verif::Interceptor>);
        let r = ops::backup(&self.world.arch, &hook, &self.world.src, opts, &[]);
        (r, ctl)
    }

    /// Storage trace of a fault-free backup (run on the real directory, then reset).
    pub fn backup_trace(&self, opts: Opts) -> Vec<Logged> {
        let (_r, ctl) = self.backup(opts, Plan::None);
        let log = ctl.log();
        self.reset();
        log
    }

    pub fn delete(
        &self,
        ids: &[u32],
        dry_run: bool,
        plan: Plan,
    ) -> (ops::OpReport<conserve::DeleteStats>, Arc<Ctl>) {
        let ctl = Ctl::new(&self.world.arch, plan);
        let hook: Hook = Some(ctl.clone() as Arc<dyn conserve::transport::verif::Interceptor>);
        let r = ops::delete_bands(&self.world.arch, &hook, ids, dry_run, false);
        (r, ctl)
    }
}

/// Crash points with distinct outcomes: before every mutating operation, and for writes
/// additionally the torn variant. (Stopping before a non-mutating operation leaves the
/// same directory as stopping before the next mutating one.)
pub fn crash_points(trace: &[Logged]) -> Vec<(Key, bool)> {
    let mut out = vec![];
    for l in trace {
        if l.key.verb.mutating() {
            out.push((l.key.clone(), false));
            if l.key.verb == V::Write {
                out.push((l.key.clone(), true));
            }
        }
    }
    out
}

/// Evenly spaced subset of at most `max` items.
pub fn thin<T: Clone>(v: &[T], max: usize) -> Vec<T> {
    if v.len() <= max {
        return v.to_vec();
    }
    (0..max).map(|i| v[i * v.len() / max].clone()).collect()
}
