//! Damage to one stored file (C09, C10).

use std::path::Path;

use serde::{Deserialize, Serialize};

use crate::tree::content_bytes;

#[derive(Debug, Clone, Copy, PartialEq, Eq, Serialize, Deserialize)]
pub enum Dmg {
    Delete,
    Truncate0,
    TruncateHalf,
    /// Overwrite with pseudo-random bytes of equal length.
    Garbage,
    /// Flip one bit; position = fraction of the file's bit length.
    Flip(u16),
}

impl Dmg {
    pub const BASIC: [Dmg; 4] = [Dmg::Delete, Dmg::Truncate0, Dmg::TruncateHalf, Dmg::Garbage];
    pub fn is_removal_or_empty(self) -> bool {
        matches!(self, Dmg::Delete | Dmg::Truncate0)
    }
    pub fn name(self) -> &'static str {
        match self {
            Dmg::Delete => "delete",
            Dmg::Truncate0 => "truncate0",
            Dmg::TruncateHalf => "truncate-half",
            Dmg::Garbage => "garbage",
            Dmg::Flip(_) => "bitflip",
        }
    }
}

/// Apply the damage; returns false if it would not change the file (e.g. half of 1 byte).
pub fn apply(root: &Path, relpath: &str, d: Dmg) -> bool {
    let p = root.join(relpath);
    let Ok(old) = std::fs::read(&p) else { return false };
    let new: Option<Vec<u8>> = match d {
        Dmg::Delete => None,
        Dmg::Truncate0 => Some(vec![]),
        Dmg::TruncateHalf => Some(old[..old.len() / 2].to_vec()),
        Dmg::Garbage => {
            let mut g = content_bytes(6, old.len() as u32);
            if g == old {
                g = content_bytes(5, old.len() as u32);
            }
            Some(g)
        }
        Dmg::Flip(frac) => {
            if old.is_empty() {
                return false;
            }
            let bits = old.len() * 8;
            let pos = (frac as usize * bits) >> 16;
            let mut n = old.clone();
            n[pos / 8] ^= 1 << (pos % 8);
            Some(n)
        }
    };
    match new {
        None => {
            std::fs::remove_file(&p).unwrap();
            true
        }
        Some(n) => {
            if n == old {
                return false;
            }
            std::fs::write(&p, n).unwrap();
            true
        }
    }
}

#[derive(Debug, Clone, Copy, PartialEq, Eq)]
pub enum FileClass {
    Header,
    BandHead,
    BandTail,
    Hunk,
    Block,
    Other,
}

pub fn classify(relpath: &str) -> FileClass {
    if relpath == "CONSERVE" {
        FileClass::Header
    } else if relpath.ends_with("/BANDHEAD") {
        FileClass::BandHead
    } else if relpath.ends_with("/BANDTAIL") {
        FileClass::BandTail
    } else if relpath.starts_with("d/") {
        FileClass::Block
    } else if relpath.contains("/i/") {
        FileClass::Hunk
    } else {
        FileClass::Other
    }
}

/// Band id of a path inside a band directory.
pub fn band_of(relpath: &str) -> Option<u32> {
    let first = relpath.split('/').next()?;
    first.strip_prefix('b')?.parse().ok()
}
