//! Interceptors built on conserve's `verif_hooks` transport wrapper: logging, crash
//! (freeze), fault injection, and a deterministic scheduler for several actors.

use std::collections::{BTreeMap, HashMap};
use std::path::{Path, PathBuf};
use std::sync::{Arc, Condvar, Mutex};

use conserve::transport::ErrorKind;
use conserve::transport::record::Verb;
use conserve::transport::verif::{Action, Call, Interceptor};
use serde::{Deserialize, Serialize};

#[derive(Debug, Clone, Copy, PartialEq, Eq, Hash, PartialOrd, Ord, Serialize, Deserialize)]
pub enum V {
    Read,
    Write,
    ListDir,
    CreateDir,
    Metadata,
    RemoveFile,
    RemoveDirAll,
}

impl V {
    pub fn from(v: Verb) -> V {
        match v {
            Verb::Read => V::Read,
            Verb::Write => V::Write,
            Verb::ListDir => V::ListDir,
            Verb::CreateDir => V::CreateDir,
            Verb::Metadata => V::Metadata,
            Verb::RemoveFile => V::RemoveFile,
            Verb::RemoveDirAll => V::RemoveDirAll,
        }
    }
    pub fn mutating(self) -> bool {
        matches!(self, V::Write | V::CreateDir | V::RemoveFile | V::RemoveDirAll)
    }
}

/// Stable address of one operation inside one run: (verb, path, n-th occurrence).
#[derive(Debug, Clone, PartialEq, Eq, Hash, PartialOrd, Ord, Serialize, Deserialize)]
pub struct Key {
    pub verb: V,
    pub path: String,
    pub occ: u32,
}

#[derive(Debug, Clone, Copy, PartialEq, Eq, Serialize, Deserialize)]
pub enum Pre {
    Absent,
    File(u64),
    Dir,
}

#[derive(Debug, Clone, Copy, PartialEq, Eq, Serialize, Deserialize)]
pub enum Kind {
    NotFound,
    AlreadyExists,
    PermissionDenied,
    Other,
    /// A connection-level failure, as remote transports report them (not one of the four
    /// kinds of the statements' quantifiers; used only for faults during races).
    Connect,
}

impl Kind {
    pub const ALL: [Kind; 4] = [Kind::NotFound, Kind::AlreadyExists, Kind::PermissionDenied, Kind::Other];
    fn to_conserve(self) -> ErrorKind {
        match self {
            Kind::NotFound => ErrorKind::NotFound,
            Kind::AlreadyExists => ErrorKind::AlreadyExists,
            Kind::PermissionDenied => ErrorKind::PermissionDenied,
            Kind::Other => ErrorKind::Other,
            Kind::Connect => ErrorKind::Connect,
        }
    }
}

#[derive(Debug, Clone, Serialize, Deserialize)]
pub struct Logged {
    pub key: Key,
    pub index: usize,
    pub payload_len: Option<usize>,
    pub create_new: Option<bool>,
    pub pre: Pre,
    /// None = proceeded; Some(kind) = failed by injection (or frozen).
    pub injected: Option<Kind>,
    pub ok: bool,
}

#[derive(Debug, Clone, Serialize, Deserialize)]
pub enum Plan {
    /// Only log.
    None,
    /// Stop the world before the operation with this key; `torn` additionally leaves an
    /// empty file at the target of a write (if nothing is there).
    FreezeAtKey { key: Key, torn: bool },
    /// Stop the world before the k-th (0-based) mutating operation.
    FreezeAtMutating { k: usize, torn: bool },
    /// Fail exactly this operation, then carry on.
    FailAtKey { key: Key, kind: Kind },
    /// Fail the operations with these global indices.
    FailAtIndices(BTreeMap<usize, Kind>),
}

struct CtlState {
    log: Vec<Logged>,
    occ: HashMap<(V, String), u32>,
    mutating_seen: usize,
    frozen: bool,
    triggered: bool,
}

/// Logging + crash + fault interceptor for one actor.
pub struct Ctl {
    root: PathBuf,
    plan: Plan,
    state: Mutex<CtlState>,
    serialize: bool,
    /// Optional perturbation of task timing (C17): one byte per operation, cycled.
    perturb: Vec<u8>,
}

impl Ctl {
    pub fn new(root: &Path, plan: Plan) -> Arc<Ctl> {
        Arc::new(Ctl {
            root: root.to_path_buf(),
            plan,
            state: Mutex::new(CtlState {
                log: vec![],
                occ: HashMap::new(),
                mutating_seen: 0,
                frozen: false,
                triggered: false,
            }),
            serialize: true,
            perturb: vec![],
        })
    }

    /// Like `new`, but operations are not serialized (conserve's own concurrent tasks really
    /// overlap) and each operation is preceded by a yield/sleep chosen by `perturb`.
    pub fn new_unserialized(root: &Path, plan: Plan, perturb: Vec<u8>) -> Arc<Ctl> {
        Arc::new(Ctl {
            root: root.to_path_buf(),
            plan,
            state: Mutex::new(CtlState {
                log: vec![],
                occ: HashMap::new(),
                mutating_seen: 0,
                frozen: false,
                triggered: false,
            }),
            serialize: false,
            perturb,
        })
    }

    pub fn log(&self) -> Vec<Logged> {
        self.state.lock().unwrap().log.clone()
    }

    /// Did the plan's trigger fire?
    pub fn triggered(&self) -> bool {
        self.state.lock().unwrap().triggered
    }

    pub fn frozen(&self) -> bool {
        self.state.lock().unwrap().frozen
    }

    fn pre_state(&self, path: &str) -> Pre {
        let p = if path.is_empty() { self.root.clone() } else { self.root.join(path) };
        match std::fs::symlink_metadata(&p) {
            Err(_) => Pre::Absent,
            Ok(m) if m.is_dir() => Pre::Dir,
            Ok(m) => Pre::File(m.len()),
        }
    }
}

impl Interceptor for Ctl {
    fn before(&self, call: &Call<'_>) -> Action {
        let verb = V::from(call.verb);
        if !self.perturb.is_empty() {
            let i = self.state.lock().unwrap().log.len();
            match self.perturb[i % self.perturb.len()] % 4 {
                0 => {}
                1 => std::thread::yield_now(),
                2 => std::thread::sleep(std::time::Duration::from_micros(30)),
                _ => std::thread::sleep(std::time::Duration::from_micros(200)),
            }
        }
        let pre = self.pre_state(&call.path);
        let mut st = self.state.lock().unwrap();
        let occ = {
            let e = st.occ.entry((verb, call.path.clone())).or_insert(0);
            let o = *e;
            *e += 1;
            o
        };
        let key = Key {
            verb,
            path: call.path.clone(),
            occ,
        };
        let index = st.log.len();
        let mut injected = None;
        if st.frozen {
            injected = Some(Kind::Other);
        } else {
            match &self.plan {
                Plan::None => {}
                Plan::FreezeAtKey { key: k, torn } => {
                    if *k == key {
                        st.frozen = true;
                        st.triggered = true;
                        injected = Some(Kind::Other);
                        if *torn && verb == V::Write && pre == Pre::Absent {
                            let _ = std::fs::write(self.root.join(&call.path), b"");
                        }
                    }
                }
                Plan::FreezeAtMutating { k, torn } => {
                    if verb.mutating() && st.mutating_seen == *k {
                        st.frozen = true;
                        st.triggered = true;
                        injected = Some(Kind::Other);
                        if *torn && verb == V::Write && pre == Pre::Absent {
                            let _ = std::fs::write(self.root.join(&call.path), b"");
                        }
                    }
                }
                Plan::FailAtKey { key: k, kind } => {
                    if *k == key {
                        st.triggered = true;
                        injected = Some(*kind);
                    }
                }
                Plan::FailAtIndices(m) => {
                    if let Some(kind) = m.get(&index) {
                        st.triggered = true;
                        injected = Some(*kind);
                    }
                }
            }
        }
        if verb.mutating() {
            st.mutating_seen += 1;
        }
        st.log.push(Logged {
            key,
            index,
            payload_len: call.payload.map(|p| p.len()),
            create_new: call
                .write_mode
                .map(|m| m == conserve::transport::WriteMode::CreateNew),
            pre,
            injected,
            ok: false,
        });
        match injected {
            Some(k) => Action::Fail(k.to_conserve()),
            None => Action::Proceed,
        }
    }

    fn after(&self, _call: &Call<'_>, ok: bool) {
        let mut st = self.state.lock().unwrap();
        if let Some(l) = st.log.last_mut() {
            l.ok = ok;
        }
    }

    fn serialize(&self) -> bool {
        self.serialize
    }
}

// ---------------------------------------------------------------------------
// Perturbation (C17): no gate, yields/sleeps according to a generated bit string.

pub struct Perturb {
    bits: Vec<u8>,
    pos: Mutex<usize>,
}

impl Perturb {
    pub fn new(bits: Vec<u8>) -> Arc<Perturb> {
        Arc::new(Perturb {
            bits,
            pos: Mutex::new(0),
        })
    }
}

impl Interceptor for Perturb {
    fn before(&self, _call: &Call<'_>) -> Action {
        if !self.bits.is_empty() {
            let i = {
                let mut p = self.pos.lock().unwrap();
                let i = *p;
                *p += 1;
                i
            };
            match self.bits[i % self.bits.len()] % 4 {
                0 => {}
                1 => std::thread::yield_now(),
                2 => std::thread::sleep(std::time::Duration::from_micros(20)),
                _ => std::thread::sleep(std::time::Duration::from_micros(150)),
            }
        }
        Action::Proceed
    }
    fn serialize(&self) -> bool {
        false
    }
}

// ---------------------------------------------------------------------------
// Deterministic scheduler for several actors on one archive directory.

#[derive(Debug, Clone, Copy, PartialEq, Eq)]
enum ActorState {
    /// Running conserve code between operations (or not started yet).
    Running,
    /// Parked in before(), waiting for a grant.
    Parked,
    /// Granted: executing exactly one operation.
    Granted,
    Finished,
}

struct SchedState {
    actors: Vec<ActorState>,
    /// Log of (actor, key, pre) in global execution order.
    trace: Vec<(usize, Logged)>,
    occ: Vec<HashMap<(V, String), u32>>,
    /// How many operations matched each fault so far.
    fault_seen: Vec<u16>,
    /// Actors that have been killed (all their operations fail).
    frozen: Vec<bool>,
}

/// An injected storage error in a scheduled run: the `nth` (0-based) operation of `actor`
/// whose verb is `verb` (any if None) and whose path starts with `prefix` fails with `kind`
/// and is not performed.
#[derive(Debug, Clone, PartialEq, Eq, Serialize, Deserialize)]
pub struct RaceFault {
    pub actor: usize,
    pub verb: Option<V>,
    pub prefix: String,
    pub nth: u16,
    pub kind: Kind,
    /// The actor is killed at this operation: if it is a write to a path that does not exist
    /// an empty file is left there, and this and every later operation of the actor fails.
    #[serde(default)]
    pub freeze_torn: bool,
}

pub struct Sched {
    root: PathBuf,
    faults: Vec<RaceFault>,
    st: Mutex<SchedState>,
    cv: Condvar,
}

pub struct ActorHook {
    sched: Arc<Sched>,
    id: usize,
}

impl Sched {
    pub fn new(root: &Path, n_actors: usize) -> Arc<Sched> {
        Sched::with_faults(root, n_actors, vec![])
    }

    pub fn with_faults(root: &Path, n_actors: usize, faults: Vec<RaceFault>) -> Arc<Sched> {
        Arc::new(Sched {
            root: root.to_path_buf(),
            st: Mutex::new(SchedState {
                actors: vec![ActorState::Running; n_actors],
                trace: vec![],
                occ: vec![HashMap::new(); n_actors],
                fault_seen: vec![0; faults.len()],
                frozen: vec![false; n_actors],
            }),
            faults,
            cv: Condvar::new(),
        })
    }

    pub fn hook(self: &Arc<Sched>, id: usize) -> Arc<ActorHook> {
        Arc::new(ActorHook {
            sched: Arc::clone(self),
            id,
        })
    }

    pub fn finish(&self, id: usize) {
        let mut st = self.st.lock().unwrap();
        st.actors[id] = ActorState::Finished;
        self.cv.notify_all();
    }

    /// Wait until every actor is parked or finished. Returns the ids that are parked.
    pub fn wait_quiescent(&self) -> Vec<usize> {
        let mut st = self.st.lock().unwrap();
        loop {
            if st
                .actors
                .iter()
                .all(|a| matches!(a, ActorState::Parked | ActorState::Finished))
            {
                return st
                    .actors
                    .iter()
                    .enumerate()
                    .filter(|(_, a)| **a == ActorState::Parked)
                    .map(|(i, _)| i)
                    .collect();
            }
            st = self.cv.wait(st).unwrap();
        }
    }

    /// Let `id` (which must be parked) perform exactly one operation.
    pub fn grant(&self, id: usize) {
        let mut st = self.st.lock().unwrap();
        assert_eq!(st.actors[id], ActorState::Parked);
        st.actors[id] = ActorState::Granted;
        self.cv.notify_all();
    }

    pub fn trace(&self) -> Vec<(usize, Logged)> {
        self.st.lock().unwrap().trace.clone()
    }

    fn pre_state(&self, path: &str) -> Pre {
        let p = if path.is_empty() { self.root.clone() } else { self.root.join(path) };
        match std::fs::symlink_metadata(&p) {
            Err(_) => Pre::Absent,
            Ok(m) if m.is_dir() => Pre::Dir,
            Ok(m) => Pre::File(m.len()),
        }
    }
}

/// While non-zero, every BANDHEAD an actor of a scheduled run writes is re-dated right after
/// the write: its `start_time` is moved this many seconds into the past, as if the backup had
/// been running that long (or its clock were that far behind). One case runs at a time in a
/// process, so a global will do.
static HEAD_AGE_S: std::sync::atomic::AtomicI64 = std::sync::atomic::AtomicI64::new(0);

pub fn set_head_age(secs: i64) {
    HEAD_AGE_S.store(secs, std::sync::atomic::Ordering::SeqCst);
}

impl Interceptor for ActorHook {
    fn before(&self, call: &Call<'_>) -> Action {
        let s = &self.sched;
        let mut st = s.st.lock().unwrap();
        st.actors[self.id] = ActorState::Parked;
        s.cv.notify_all();
        while st.actors[self.id] != ActorState::Granted {
            st = s.cv.wait(st).unwrap();
        }
        // Granted: record and proceed (still counted as Granted until after()).
        let verb = V::from(call.verb);
        let occ = {
            let e = st.occ[self.id].entry((verb, call.path.clone())).or_insert(0);
            let o = *e;
            *e += 1;
            o
        };
        drop(st);
        let pre = s.pre_state(&call.path);
        let mut st = s.st.lock().unwrap();
        let index = st.trace.len();
        let mut injected = None;
        if st.frozen[self.id] {
            injected = Some(Kind::Other);
        }
        for (fi, f) in s.faults.iter().enumerate() {
            if f.actor == self.id && f.verb.map_or(true, |v| v == verb) && call.path.starts_with(&f.prefix) {
                if st.fault_seen[fi] == f.nth && injected.is_none() {
                    injected = Some(f.kind);
                    if f.freeze_torn {
                        st.frozen[self.id] = true;
                        if verb == V::Write && pre == Pre::Absent {
                            let _ = std::fs::write(s.root.join(&call.path), b"");
                        }
                    }
                }
                st.fault_seen[fi] = st.fault_seen[fi].saturating_add(1);
            }
        }
        st.trace.push((
            self.id,
            Logged {
                key: Key {
                    verb,
                    path: call.path.clone(),
                    occ,
                },
                index,
                payload_len: call.payload.map(|p| p.len()),
                create_new: call
                    .write_mode
                    .map(|m| m == conserve::transport::WriteMode::CreateNew),
                pre,
                injected,
                ok: false,
            },
        ));
        match injected {
            Some(k) => Action::Fail(k.to_conserve()),
            None => Action::Proceed,
        }
    }

    fn after(&self, call: &Call<'_>, ok: bool) {
        let s = &self.sched;
        let age = HEAD_AGE_S.load(std::sync::atomic::Ordering::SeqCst);
        if ok && age > 0 && V::from(call.verb) == V::Write && call.path.ends_with("/BANDHEAD") {
            let p = s.root.join(&call.path);
            if let Ok(bytes) = std::fs::read(&p) {
                if let Ok(serde_json::Value::Object(mut m)) = serde_json::from_slice::<serde_json::Value>(&bytes) {
                    if let Some(t) = m.get("start_time").and_then(|t| t.as_i64()) {
                        m.insert("start_time".into(), serde_json::json!(t - age));
                        let _ = std::fs::write(&p, serde_json::to_vec(&serde_json::Value::Object(m)).unwrap());
                    }
                }
            }
        }
        let mut st = s.st.lock().unwrap();
        if let Some((_, l)) = st.trace.iter_mut().rev().find(|(a, _)| *a == self.id) {
            l.ok = ok;
        }
        st.actors[self.id] = ActorState::Running;
        s.cv.notify_all();
    }
}
