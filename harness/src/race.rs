//! Deterministic interleaving of several conserve operations on one archive directory.
//!
//! Each actor runs on its own OS thread with its own runtime and its own hooked transport;
//! the scheduler lets exactly one storage operation run at a time, so an execution is a
//! function of the schedule.

use std::path::Path;
use std::sync::Arc;

use serde::{Deserialize, Serialize};

use crate::hooks::{Logged, RaceFault, Sched};
use crate::ops::Hook;

/// A schedule: run actor `.0` for `.1` operations, then the next segment, ...; when the
/// segments are used up (or name a finished actor) the remaining actors run to completion
/// in index order.
#[derive(Debug, Clone, PartialEq, Eq, Serialize, Deserialize)]
pub struct Schedule(pub Vec<(u8, u16)>);

impl Schedule {
    pub fn switches(&self) -> usize {
        self.0.len()
    }
}

pub struct RaceOut<T> {
    pub results: Vec<T>,
    /// (actor, operation) in execution order.
    pub trace: Vec<(usize, Logged)>,
}

/// Run the actors under the schedule. `actors[i]` receives its hook and must perform its
/// conserve operation(s) with it.
pub fn run<T: Send + 'static>(
    arch: &Path,
    actors: Vec<Box<dyn FnOnce(Hook) -> T + Send>>,
    schedule: &Schedule,
) -> RaceOut<T> {
    run_with_faults(arch, actors, schedule, vec![])
}

/// As `run`, with injected storage errors (each fails one operation of one actor).
pub fn run_with_faults<T: Send + 'static>(
    arch: &Path,
    actors: Vec<Box<dyn FnOnce(Hook) -> T + Send>>,
    schedule: &Schedule,
    faults: Vec<RaceFault>,
) -> RaceOut<T> {
    let n = actors.len();
    let sched = Sched::with_faults(arch, n, faults);
    let mut handles = vec![];
    for (i, f) in actors.into_iter().enumerate() {
        let s = Arc::clone(&sched);
        handles.push(std::thread::spawn(move || {
            let hook: Hook = Some(s.hook(i) as Arc<dyn conserve::transport::verif::Interceptor>);
            let out = f(hook);
            s.finish(i);
            out
        }));
    }
    let mut seg = 0usize;
    let mut used_in_seg = 0u16;
    loop {
        let parked = sched.wait_quiescent();
        if parked.is_empty() {
            break;
        }
        // pick according to the schedule
        let mut choice = None;
        while seg < schedule.0.len() {
            let (a, count) = schedule.0[seg];
            let a = a as usize % n;
            if used_in_seg < count && parked.contains(&a) {
                choice = Some(a);
                used_in_seg += 1;
                break;
            }
            seg += 1;
            used_in_seg = 0;
        }
        let choice = choice.unwrap_or(parked[0]);
        sched.grant(choice);
    }
    let results = handles.into_iter().map(|h| h.join().expect("actor thread")).collect();
    RaceOut {
        results,
        trace: sched.trace(),
    }
}

/// All schedules for two actors with at most `max_switches` context switches, switch
/// points taken from `points_a` / `points_b` (operation counts).
pub fn enumerate_two(points: &[Vec<u16>; 2], max_switches: usize) -> Vec<Schedule> {
    let mut out = vec![];
    for first in 0..2u8 {
        // zero switches: `first` runs to completion, then the other
        out.push(Schedule(vec![(first, u16::MAX)]));
        fn rec(points: &[Vec<u16>; 2], cur: &mut Vec<(u8, u16)>, actor: u8, left: usize, out: &mut Vec<Schedule>) {
            if left == 0 {
                return;
            }
            for p in &points[actor as usize] {
                cur.push((actor, *p));
                // after this segment the other actor continues (to completion unless switched again)
                let mut s = cur.clone();
                s.push((1 - actor, u16::MAX));
                out.push(Schedule(s));
                rec(points, cur, 1 - actor, left - 1, out);
                cur.pop();
            }
        }
        let mut cur = vec![];
        rec(points, &mut cur, first, max_switches, &mut out);
    }
    out.sort_by(|a, b| a.0.len().cmp(&b.0.len()).then_with(|| format!("{a:?}").cmp(&format!("{b:?}"))));
    out.dedup();
    out
}

/// Switch points worth trying, derived from an actor's solo trace: `p` means "the actor
/// has performed its first p operations". `all` brackets every lock-related, root-listing
/// and mutating operation; `critical` is the handful around lock test / lock write, band
/// creation, the collector's re-check and its first deletions.
pub fn key_points(trace: &[Logged]) -> (Vec<u16>, Vec<u16>) {
    use crate::hooks::V;
    let mut all: Vec<u16> = vec![1];
    let mut critical: Vec<u16> = vec![];
    let mut seen_first_remove = false;
    let mut seen_first_block_remove = false;
    let mut seen_band_create = false;
    let mut seen_block_write = false;
    let mut last_root_list_before_remove: Option<usize> = None;
    for (i, l) in trace.iter().enumerate() {
        let p = &l.key.path;
        let is_lock = p == "GC_LOCK";
        let is_root_list = l.key.verb == V::ListDir && p.is_empty();
        let interesting = is_lock || is_root_list || l.key.verb.mutating();
        if interesting {
            all.push(i as u16);
            all.push(i as u16 + 1);
        }
        if is_lock {
            critical.push(i as u16 + 1);
        }
        if is_root_list && !seen_first_remove {
            last_root_list_before_remove = Some(i);
        }
        match l.key.verb {
            V::CreateDir if p.starts_with('b') && !seen_band_create => {
                seen_band_create = true;
                critical.push(i as u16);
            }
            V::Write if p.ends_with("BANDHEAD") => critical.push(i as u16 + 1),
            V::Write if p.starts_with("d/") && !seen_block_write => {
                seen_block_write = true;
                critical.push(i as u16);
            }
            V::RemoveDirAll | V::RemoveFile if !is_lock => {
                if !seen_first_remove {
                    seen_first_remove = true;
                    critical.push(i as u16);
                    if let Some(r) = last_root_list_before_remove {
                        critical.push(r as u16 + 1);
                    }
                }
                if p.starts_with("d/") && !seen_first_block_remove {
                    seen_first_block_remove = true;
                    critical.push(i as u16);
                }
            }
            _ => {}
        }
    }
    for v in [&mut all, &mut critical] {
        v.retain(|p| *p >= 1 && (*p as usize) <= trace.len());
        v.sort();
        v.dedup();
    }
    (all, critical)
}

/// Schedules for two actors: every <=2-switch schedule over `all` points, and every
/// 3-switch schedule over the `critical` points, both starting orders.
pub fn enumerate_keyed(all: &[Vec<u16>; 2], critical: &[Vec<u16>; 2]) -> Vec<Schedule> {
    let mut out = enumerate_two(all, 2);
    out.extend(enumerate_two(critical, 3));
    out.sort_by(|a, b| a.0.len().cmp(&b.0.len()).then_with(|| format!("{a:?}").cmp(&format!("{b:?}"))));
    out.dedup();
    out
}
