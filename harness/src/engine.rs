//! Engine: proptest runner, worker pool, evidence, replay, known findings.

use std::cell::RefCell;
use std::collections::{BTreeMap, BTreeSet};
use std::hash::{Hash, Hasher};
use std::io::Write;
use std::path::{Path, PathBuf};
use std::process::{Command, Stdio};
use std::sync::atomic::{AtomicBool, AtomicU64, Ordering};
use std::sync::{Arc, Mutex};
use std::time::{Duration, Instant};

use proptest::strategy::{BoxedStrategy, Strategy, ValueTree};
use proptest::test_runner::{Config, RngAlgorithm, RngSeed, TestCaseError, TestError, TestRng, TestRunner};
use serde::de::DeserializeOwned;
use serde::{Deserialize, Serialize};
use serde_json::{Value, json};

/// Home of corpus/, known_findings.json, evidence/ and replays/. Always /verif for the
/// registered checks; soak runs point it elsewhere (VERIF_HOME) to keep evidence apart.
pub fn verif_dir() -> PathBuf {
    std::env::var_os("VERIF_HOME").map(PathBuf::from).unwrap_or_else(|| PathBuf::from("/verif"))
}

#[derive(Debug, Clone, Copy, PartialEq, Eq, Serialize, Deserialize)]
#[serde(rename_all = "lowercase")]
pub enum Tier {
    Quick,
    Thorough,
}

impl Tier {
    pub fn name(self) -> &'static str {
        match self {
            Tier::Quick => "quick",
            Tier::Thorough => "thorough",
        }
    }
    pub fn pick<T>(self, quick: T, thorough: T) -> T {
        match self {
            Tier::Quick => quick,
            Tier::Thorough => thorough,
        }
    }
}

/// A failed oracle.
#[derive(Debug, Clone, Serialize, Deserialize)]
pub struct Failure {
    /// Stable identifier of *what* failed (clause + shape), used to match known findings.
    pub signature: String,
    pub message: String,
    /// For enumerating checks, the inner value (crash key, fault, schedule) that failed.
    #[serde(default)]
    pub inner: Value,
}

impl Failure {
    pub fn new(signature: impl Into<String>, message: impl Into<String>) -> Failure {
        Failure {
            signature: signature.into(),
            message: message.into(),
            inner: Value::Null,
        }
    }
    pub fn with_inner(mut self, inner: Value) -> Failure {
        self.inner = inner;
        self
    }
}

pub type CaseResult = Result<(), Failure>;

#[macro_export]
macro_rules! fail {
    ($sig:expr, $($arg:tt)*) => {
        return Err($crate::engine::Failure::new($sig, format!($($arg)*)))
    };
}

#[macro_export]
macro_rules! ensure {
    ($cond:expr, $sig:expr, $($arg:tt)*) => {
        if !($cond) {
            return Err($crate::engine::Failure::new($sig, format!($($arg)*)));
        }
    };
}

/// Per-case context handed to a property's `run`.
pub struct Cx {
    pub tier: Tier,
    pub scratch: PathBuf,
    /// True when replaying a saved case: be strict, print details.
    pub replay: bool,
    /// Restrict the inner enumeration to this inner value (replay of enumerating checks).
    pub only_inner: Option<Value>,
    // Outputs
    pub evals: u64,
    pub nontrivial: bool,
    pub labels: Vec<String>,
    pub inner_nontrivial: u64,
    pub excluded_known: u64,
    pub known_hits: Vec<Failure>,
    known: Arc<Vec<KnownFinding>>,
}

impl Cx {
    pub fn label(&mut self, l: impl Into<String>) {
        self.labels.push(l.into());
    }
    pub fn label_if(&mut self, c: bool, l: &str) {
        if c {
            self.labels.push(l.to_string());
        }
    }
    /// Count `n` evaluations of the oracle in this case (default is 1 for the case itself).
    pub fn add_evals(&mut self, n: u64) {
        self.evals += n;
    }
    /// Path for scratch use, unique inside this case.
    pub fn dir(&self, name: &str) -> PathBuf {
        self.scratch.join(name)
    }
    /// Is this signature listed as an *open* known finding?
    pub fn is_known(&self, sig: &str) -> bool {
        self.known
            .iter()
            .any(|k| k.status == "open" && k.signature == sig)
    }
    /// For enumerating checks: an inner failure. Returns Ok if it is a listed open finding
    /// (recorded, search continues), else Err to be propagated.
    pub fn inner_failure(&mut self, f: Failure) -> CaseResult {
        if self.is_known(&f.signature) {
            if !self.known_hits.iter().any(|k| k.signature == f.signature) {
                self.known_hits.push(f);
            }
            Ok(())
        } else {
            Err(f)
        }
    }
}

/// A context for a nested run inside an enumeration phase, with its own scratch directory.
pub fn sub_cx(cx: &Cx, scratch: PathBuf) -> Cx {
    Cx {
        tier: cx.tier,
        scratch,
        replay: cx.replay,
        only_inner: None,
        evals: 0,
        nontrivial: false,
        labels: vec![],
        inner_nontrivial: 0,
        excluded_known: 0,
        known_hits: vec![],
        known: Arc::clone(&cx.known),
    }
}

#[derive(Debug, Clone, Serialize, Deserialize)]
pub struct KnownFinding {
    pub property: String,
    pub signature: String,
    /// "open" or "fixed"
    pub status: String,
    #[serde(default)]
    pub commit: String,
    pub what: String,
}

pub fn load_known(id: &str) -> Vec<KnownFinding> {
    let p = verif_dir().join("known_findings.json");
    let Ok(s) = std::fs::read_to_string(&p) else {
        return vec![];
    };
    let all: Vec<KnownFinding> = serde_json::from_str(&s).expect("parse known_findings.json");
    all.into_iter().filter(|k| k.property == id).collect()
}

/// Type-erased property.
pub trait PropDyn: Sync {
    fn id(&self) -> &'static str;
    fn level(&self) -> &'static str;
    fn rule(&self) -> &'static str;
    fn assumptions(&self) -> Vec<&'static str>;
    fn exhaustive(&self, _tier: Tier) -> bool {
        false
    }
    fn worker(&self, args: &WorkerArgs) -> WorkerResult;
    fn replay(&self, path: &Path, tier: Tier) -> CaseResultReport;
}

pub struct CaseResultReport {
    pub result: CaseResult,
    pub known_hits: Vec<Failure>,
}

#[derive(Debug, Clone)]
pub struct WorkerArgs {
    pub tier: Tier,
    pub seed: u64,
    pub index: u32,
    pub of: u32,
}

#[derive(Debug, Default, Serialize, Deserialize)]
pub struct WorkerResult {
    pub cases: u64,
    pub evaluations: u64,
    pub nontrivial_hashes: Vec<u64>,
    /// Nontrivial inner evaluations that are distinct by construction (enumerations).
    pub nontrivial_enumerated: u64,
    pub labels: BTreeMap<String, u64>,
    pub samples: Vec<Value>,
    pub violations: Vec<ViolationRec>,
    pub known_hits: Vec<Failure>,
    pub excluded_known: u64,
    pub corpus_replayed: u64,
    pub inconclusive: Option<String>,
}

#[derive(Debug, Clone, Serialize, Deserialize)]
pub struct ViolationRec {
    pub signature: String,
    pub message: String,
    pub replay: String,
}

/// A property defined by a proptest strategy over `C` plus a run function, and
/// optionally an extra enumeration phase.
pub struct Prop<C: 'static> {
    pub id: &'static str,
    pub level: &'static str,
    pub rule: &'static str,
    pub assumptions: &'static [&'static str],
    /// Total number of generated cases for the tier (split over workers).
    pub cases: fn(Tier) -> u32,
    pub strategy: fn(Tier) -> BoxedStrategy<C>,
    pub run: fn(&C, &mut Cx) -> CaseResult,
    /// Optional exhaustive phase: (tier, worker index, worker count, cx) -> result.
    /// Must add its own evals / inner_nontrivial to cx.
    pub enumerate: Option<fn(Tier, u32, u32, &mut Cx) -> CaseResult>,
    pub exhaustive: fn(Tier) -> bool,
    pub max_shrink_iters: u32,
}

pub fn hash_str(s: &str) -> u64 {
    let mut h = std::collections::hash_map::DefaultHasher::new();
    s.hash(&mut h);
    h.finish()
}

pub fn mix(a: u64, b: u64) -> u64 {
    let mut h = std::collections::hash_map::DefaultHasher::new();
    a.hash(&mut h);
    b.hash(&mut h);
    h.finish()
}

static SCRATCH_COUNTER: AtomicU64 = AtomicU64::new(0);

pub fn scratch_root() -> PathBuf {
    let base = if Path::new("/dev/shm").is_dir() {
        PathBuf::from("/dev/shm")
    } else {
        std::env::temp_dir()
    };
    base.join(format!("verif-{}", std::process::id()))
}

/// A killed earlier process can leave its scratch directory behind, and process ids are
/// reused: start from an empty directory, and drop the leftovers of processes that are gone.
fn scratch_init() {
    static INIT: std::sync::Once = std::sync::Once::new();
    INIT.call_once(|| {
        let root = scratch_root();
        force_remove(&root);
        if let Some(base) = root.parent() {
            for e in std::fs::read_dir(base).into_iter().flatten().flatten() {
                let name = e.file_name().to_string_lossy().to_string();
                if let Some(pid) = name.strip_prefix("verif-").and_then(|p| p.parse::<u32>().ok()) {
                    if !Path::new(&format!("/proc/{pid}")).exists() {
                        force_remove(&e.path());
                    }
                }
            }
        }
    });
}

fn new_case_dir() -> PathBuf {
    scratch_init();
    let n = SCRATCH_COUNTER.fetch_add(1, Ordering::Relaxed);
    // three levels deep so that a path-escape bug cannot reach anything real
    let d = scratch_root().join(format!("c{n}")).join("x").join("y");
    std::fs::create_dir_all(&d).expect("create scratch");
    d
}

pub fn force_remove(p: &Path) {
    if std::fs::symlink_metadata(p).is_err() {
        return;
    }
    if let Err(_e) = std::fs::remove_dir_all(p) {
        // Directories with mode 0 are not a problem for root; but be defensive.
        let _ = Command::new("chmod").arg("-R").arg("u+rwx").arg(p).status();
        let _ = std::fs::remove_dir_all(p);
    }
}

fn cleanup_case_dir(d: &Path) {
    // remove c<n>
    if let Some(top) = d.parent().and_then(|p| p.parent()) {
        force_remove(top);
    }
}

static HEARTBEAT: Mutex<Option<Instant>> = Mutex::new(None);

/// Called by enumerating checks between inner evaluations: the per-case time limit then
/// applies to one inner evaluation, not to the whole enumeration.
pub fn heartbeat() {
    *HEARTBEAT.lock().unwrap() = Some(Instant::now());
}

/// State shared with the watchdog thread.
struct Watch {
    current: Mutex<Option<(Instant, String)>>,
    done: AtomicBool,
}

fn new_cx(tier: Tier, known: &Arc<Vec<KnownFinding>>, replay: bool) -> Cx {
    Cx {
        tier,
        scratch: new_case_dir(),
        replay,
        only_inner: None,
        evals: 0,
        nontrivial: false,
        labels: vec![],
        inner_nontrivial: 0,
        excluded_known: 0,
        known_hits: vec![],
        known: Arc::clone(known),
    }
}

#[derive(Serialize, Deserialize)]
pub struct ReplayFile {
    pub property: String,
    pub seed: u64,
    pub signature: String,
    pub message: String,
    #[serde(default)]
    pub inner: Value,
    pub case: Value,
}

fn write_replay(id: &str, seed: u64, f: &Failure, case: &Value) -> String {
    let dir = verif_dir().join("replays").join(id);
    std::fs::create_dir_all(&dir).expect("create replays dir");
    let body = serde_json::to_string_pretty(&ReplayFile {
        property: id.to_string(),
        seed,
        signature: f.signature.clone(),
        message: f.message.clone(),
        inner: f.inner.clone(),
        case: case.clone(),
    })
    .unwrap();
    let name = format!("{:016x}.json", hash_str(&body));
    let path = dir.join(name);
    std::fs::write(&path, body).expect("write replay");
    path.to_string_lossy().into_owned()
}

const MAX_SAMPLE_BYTES: usize = 6000;

fn sample_value(v: &Value) -> Value {
    let s = v.to_string();
    if s.len() <= MAX_SAMPLE_BYTES {
        v.clone()
    } else {
        let mut cut = MAX_SAMPLE_BYTES;
        while !s.is_char_boundary(cut) {
            cut -= 1;
        }
        json!({"truncated_json": &s[..cut]})
    }
}

impl<C> Prop<C>
where
    C: Serialize + DeserializeOwned + std::fmt::Debug + Clone + 'static,
{
    fn run_one(
        &self,
        case: &C,
        tier: Tier,
        known: &Arc<Vec<KnownFinding>>,
        replay: bool,
        only_inner: Option<Value>,
        watch: Option<&Watch>,
    ) -> (CaseResult, Cx) {
        let mut cx = new_cx(tier, known, replay);
        cx.only_inner = only_inner;
        if let Some(w) = watch {
            *w.current.lock().unwrap() =
                Some((Instant::now(), serde_json::to_string(case).unwrap()));
        }
        let run = self.run;
        let r = std::panic::catch_unwind(std::panic::AssertUnwindSafe(|| run(case, &mut cx)));
        if let Some(w) = watch {
            *w.current.lock().unwrap() = None;
        }
        let r = match r {
            Ok(r) => r,
            Err(p) => {
                let msg = crate::ops::panic_message(&p);
                Err(Failure::new(
                    format!("{}/harness-panic", self.id),
                    format!("harness or unprotected code panicked: {msg}"),
                ))
            }
        };
        cleanup_case_dir(&cx.scratch);
        if cx.evals == 0 {
            cx.evals = 1;
        }
        (r, cx)
    }
}

struct Acc {
    res: WorkerResult,
    hashes: BTreeSet<u64>,
    failed: bool,
    fallback_sample: Option<Value>,
}

impl Acc {
    fn absorb(&mut self, case_json: &Value, cx: &Cx) {
        self.res.cases += 1;
        self.res.evaluations += cx.evals;
        self.res.excluded_known += cx.excluded_known;
        self.res.nontrivial_enumerated += cx.inner_nontrivial;
        for l in &cx.labels {
            *self.res.labels.entry(l.clone()).or_default() += 1;
        }
        if cx.nontrivial {
            let h = hash_str(&case_json.to_string());
            if self.hashes.insert(h) && self.res.samples.len() < 3 {
                self.res.samples.push(sample_value(case_json));
            }
        } else if cx.inner_nontrivial > 0 && self.res.samples.len() < 3 {
            // enumerating checks: the scenario is the sample; its inner values are counted
            // separately (distinct by construction)
            self.res.samples.push(sample_value(case_json));
        }
        if self.fallback_sample.is_none() {
            self.fallback_sample = Some(sample_value(case_json));
        }
        for k in &cx.known_hits {
            if !self.res.known_hits.iter().any(|x| x.signature == k.signature) {
                self.res.known_hits.push(k.clone());
            }
        }
    }
}

impl<C> PropDyn for Prop<C>
where
    C: Serialize + DeserializeOwned + std::fmt::Debug + Clone + 'static,
{
    fn id(&self) -> &'static str {
        self.id
    }
    fn level(&self) -> &'static str {
        self.level
    }
    fn rule(&self) -> &'static str {
        self.rule
    }
    fn assumptions(&self) -> Vec<&'static str> {
        self.assumptions.to_vec()
    }
    fn exhaustive(&self, tier: Tier) -> bool {
        (self.exhaustive)(tier)
    }

    fn replay(&self, path: &Path, tier: Tier) -> CaseResultReport {
        let known = Arc::new(load_known(self.id));
        let body = std::fs::read_to_string(path).expect("read replay file");
        let rf: ReplayFile = serde_json::from_str(&body).expect("parse replay file");
        if rf.case.get("enumeration").is_some() {
            // A failure of the enumeration phase: re-run the whole enumeration.
            let mut cx = new_cx(tier, &known, true);
            let en = self.enumerate.expect("property has an enumeration phase");
            let r = std::panic::catch_unwind(std::panic::AssertUnwindSafe(|| en(tier, 0, 1, &mut cx)))
                .unwrap_or_else(|p| Err(Failure::new(format!("{}/harness-panic", self.id), crate::ops::panic_message(&p))));
            cleanup_case_dir(&cx.scratch);
            return CaseResultReport { result: r, known_hits: cx.known_hits };
        }
        let case: C = serde_json::from_value(rf.case).expect("decode case");
        let only = if rf.inner.is_null() { None } else { Some(rf.inner) };
        let (r, cx) = self.run_one(&case, tier, &known, true, only, None);
        CaseResultReport {
            result: r,
            known_hits: cx.known_hits,
        }
    }

    fn worker(&self, args: &WorkerArgs) -> WorkerResult {
        let known = Arc::new(load_known(self.id));
        let acc = RefCell::new(Acc {
            res: WorkerResult::default(),
            hashes: BTreeSet::new(),
            failed: false,
            fallback_sample: None,
        });
        let watch = Arc::new(Watch {
            current: Mutex::new(None),
            done: AtomicBool::new(false),
        });
        spawn_watchdog(self.id, args.seed, Arc::clone(&watch));

        // Phase 0: corpus replay (worker 0 only).
        if args.index == 0 {
            let dir = verif_dir().join("corpus").join(self.id);
            let mut files: Vec<PathBuf> = std::fs::read_dir(&dir)
                .map(|rd| rd.filter_map(|e| e.ok().map(|e| e.path())).collect())
                .unwrap_or_default();
            files.sort();
            for f in files {
                if f.extension().map(|e| e != "json").unwrap_or(true) {
                    continue;
                }
                let body = std::fs::read_to_string(&f).expect("read corpus file");
                let rf: ReplayFile = match serde_json::from_str(&body) {
                    Ok(r) => r,
                    Err(e) => panic!("corpus file {f:?} does not parse: {e}"),
                };
                let case: C = match serde_json::from_value(rf.case.clone()) {
                    Ok(c) => c,
                    Err(e) => panic!("corpus file {f:?} case does not decode: {e}"),
                };
                let only = if rf.inner.is_null() { None } else { Some(rf.inner.clone()) };
                let (r, cx) = self.run_one(&case, args.tier, &known, false, only, Some(&watch));
                let mut a = acc.borrow_mut();
                a.res.corpus_replayed += 1;
                a.absorb(&rf.case, &cx);
                if let Err(fl) = r {
                    if cx.is_known(&fl.signature) {
                        if !a.res.known_hits.iter().any(|x| x.signature == fl.signature) {
                            a.res.known_hits.push(fl);
                        }
                    } else {
                        a.res.violations.push(ViolationRec {
                            signature: fl.signature.clone(),
                            message: fl.message.clone(),
                            replay: f.to_string_lossy().into_owned(),
                        });
                    }
                }
            }
        }

        // Phase 1: enumeration share.
        if let Some(en) = self.enumerate {
            let mut cx = new_cx(args.tier, &known, false);
            *watch.current.lock().unwrap() = None; // enumeration is not subject to per-case watchdog
            let r = std::panic::catch_unwind(std::panic::AssertUnwindSafe(|| {
                en(args.tier, args.index, args.of, &mut cx)
            }));
            let r = match r {
                Ok(r) => r,
                Err(p) => Err(Failure::new(
                    format!("{}/harness-panic", self.id),
                    crate::ops::panic_message(&p),
                )),
            };
            cleanup_case_dir(&cx.scratch);
            let mut a = acc.borrow_mut();
            a.res.evaluations += cx.evals;
            a.res.nontrivial_enumerated += cx.inner_nontrivial;
            for l in &cx.labels {
                *a.res.labels.entry(l.clone()).or_default() += 1;
            }
            for k in &cx.known_hits {
                if !a.res.known_hits.iter().any(|x| x.signature == k.signature) {
                    a.res.known_hits.push(k.clone());
                }
            }
            if let Err(fl) = r {
                if cx.is_known(&fl.signature) {
                    a.res.known_hits.push(fl);
                } else {
                    let case = json!({"enumeration": fl.inner.clone()});
                    let replay = write_replay(self.id, args.seed, &fl, &case);
                    a.res.violations.push(ViolationRec {
                        signature: fl.signature,
                        message: fl.message,
                        replay,
                    });
                }
            }
        }

        // Phase 2: generated cases.
        let total = (self.cases)(args.tier);
        let share = total / args.of + if args.index < total % args.of { 1 } else { 0 };
        if share > 0 && acc.borrow().res.violations.is_empty() {
            let wseed = mix(mix(args.seed, hash_str(self.id)), args.index as u64);
            let mut seed_bytes = [0u8; 32];
            for (i, chunk) in seed_bytes.chunks_mut(8).enumerate() {
                chunk.copy_from_slice(&mix(wseed, i as u64).to_le_bytes());
            }
            let config = Config {
                cases: share,
                failure_persistence: None,
                max_shrink_iters: self.max_shrink_iters,
                // shrinking is bounded in time as well: a slow failing case must not turn a
                // detection into a run that never reports
                max_shrink_time: 240_000,
                rng_seed: RngSeed::Fixed(wseed),
                max_global_rejects: 1_000_000,
                ..Config::default()
            };
            let rng = TestRng::from_seed(RngAlgorithm::ChaCha, &seed_bytes);
            let mut runner = TestRunner::new_with_rng(config, rng);
            let strat = (self.strategy)(args.tier);
            let result = runner.run(&strat, |case| {
                let failed = acc.borrow().failed;
                let (r, cx) = self.run_one(&case, args.tier, &known, false, None, Some(&watch));
                match r {
                    Ok(()) => {
                        if !failed {
                            let cj = serde_json::to_value(&case).unwrap();
                            acc.borrow_mut().absorb(&cj, &cx);
                        }
                        Ok(())
                    }
                    Err(f) => {
                        if cx.is_known(&f.signature) {
                            let mut a = acc.borrow_mut();
                            if !failed {
                                a.res.cases += 1;
                                a.res.evaluations += cx.evals;
                            }
                            if !a.res.known_hits.iter().any(|x| x.signature == f.signature) {
                                a.res.known_hits.push(f);
                            }
                            Ok(())
                        } else {
                            acc.borrow_mut().failed = true;
                            Err(TestCaseError::fail(format!("{}: {}", f.signature, f.message)))
                        }
                    }
                }
            });
            match result {
                Ok(()) => {}
                Err(TestError::Fail(reason, case)) => {
                    // Re-run the minimal case to get its failure record.
                    let (r, _cx) = self.run_one(&case, args.tier, &known, false, None, Some(&watch));
                    let cj = serde_json::to_value(&case).unwrap();
                    let f = match r {
                        Err(f) => f,
                        Ok(()) => Failure::new(
                            format!("{}/flaky", self.id),
                            format!(
                                "shrunk case passed when re-run: nondeterministic failure; \
                                 the failing run reported: {reason}"
                            ),
                        ),
                    };
                    let replay = write_replay(self.id, args.seed, &f, &cj);
                    acc.borrow_mut().res.violations.push(ViolationRec {
                        signature: f.signature,
                        message: f.message,
                        replay,
                    });
                }
                Err(TestError::Abort(reason)) => {
                    acc.borrow_mut().res.inconclusive =
                        Some(format!("proptest aborted: {reason}"));
                }
            }
        }
        watch.done.store(true, Ordering::SeqCst);
        let mut a = acc.into_inner();
        if a.res.samples.is_empty() {
            if let Some(f) = a.fallback_sample.take() {
                a.res.samples.push(f);
            }
        }
        a.res.nontrivial_hashes = a.hashes.into_iter().collect();
        a.res
    }
}

/// Per-case time limit (seconds). A case over this is written out as a hang replay
/// and the worker exits with code 3.
pub fn case_time_limit() -> Duration {
    let s = std::env::var("VERIF_CASE_LIMIT_S")
        .ok()
        .and_then(|s| s.parse().ok())
        .unwrap_or(60u64);
    Duration::from_secs(s)
}

fn spawn_watchdog(id: &'static str, seed: u64, watch: Arc<Watch>) {
    std::thread::spawn(move || {
        let limit = case_time_limit();
        loop {
            std::thread::sleep(Duration::from_millis(500));
            if watch.done.load(Ordering::SeqCst) {
                return;
            }
            let cur = watch.current.lock().unwrap().clone();
            if let Some((start, case_json)) = cur {
                let start = match *HEARTBEAT.lock().unwrap() {
                    Some(hb) if hb > start => hb,
                    _ => start,
                };
                if start.elapsed() > limit {
                    let case: Value = serde_json::from_str(&case_json).unwrap_or(Value::Null);
                    let f = Failure::new(
                        format!("{id}/hang"),
                        format!("case exceeded {limit:?}"),
                    );
                    let path = write_replay(id, seed, &f, &case);
                    println!("@@HANG {path}");
                    let _ = std::io::stdout().flush();
                    std::process::exit(3);
                }
            }
        }
    });
}

// ---------------------------------------------------------------------------
// Parent side

pub fn run_worker_main(prop: &dyn PropDyn, args: &WorkerArgs) -> ! {
    let res = prop.worker(args);
    force_remove(&scratch_root());
    let out = serde_json::to_string(&res).unwrap();
    println!("@@RESULT {out}");
    let _ = std::io::stdout().flush();
    std::process::exit(0);
}

pub struct ParentOutcome {
    pub exit_code: i32,
}

pub fn run_parent(prop: &dyn PropDyn, tier: Tier, seed: u64, nworkers: u32) -> ParentOutcome {
    let start = Instant::now();
    let id = prop.id();
    let exe = std::env::current_exe().expect("current exe");
    let mut children = Vec::new();
    scratch_init();
    let logdir = scratch_root();
    std::fs::create_dir_all(&logdir).expect("create log dir");
    let debug = std::env::var("VERIF_DEBUG").is_ok();
    for i in 0..nworkers {
        let outp = logdir.join(format!("w{i}.out"));
        let errp = logdir.join(format!("w{i}.err"));
        let outf = std::fs::File::create(&outp).expect("create worker out");
        let errf = std::fs::File::create(&errp).expect("create worker err");
        let child = Command::new(&exe)
            .arg(id)
            .arg("--tier")
            .arg(tier.name())
            .arg("--worker")
            .arg(i.to_string())
            .arg("--of")
            .arg(nworkers.to_string())
            .env("VERIF_SEED", seed.to_string())
            .stdin(Stdio::null())
            .stdout(Stdio::from(outf))
            .stderr(if debug { Stdio::inherit() } else { Stdio::from(errf) })
            .spawn()
            .expect("spawn worker");
        children.push((child, outp, errp));
    }
    let mut total = WorkerResult::default();
    let mut hashes = BTreeSet::new();
    let mut infra_errors: Vec<String> = vec![];
    let mut hangs: Vec<String> = vec![];
    for (i, (mut child, outp, errp)) in children.into_iter().enumerate() {
        let status = child.wait().expect("wait worker");
        let stdout = std::fs::read_to_string(&outp).unwrap_or_default();
        let stderr_text = std::fs::read_to_string(&errp).unwrap_or_default();
        let mut got = false;
        for line in stdout.lines() {
            if let Some(rest) = line.strip_prefix("@@RESULT ") {
                match serde_json::from_str::<WorkerResult>(rest) {
                    Ok(r) => {
                        got = true;
                        total.cases += r.cases;
                        total.evaluations += r.evaluations;
                        total.nontrivial_enumerated += r.nontrivial_enumerated;
                        total.excluded_known += r.excluded_known;
                        total.corpus_replayed += r.corpus_replayed;
                        for (k, v) in r.labels {
                            *total.labels.entry(k).or_default() += v;
                        }
                        for h in r.nontrivial_hashes {
                            hashes.insert(h);
                        }
                        for s in r.samples {
                            if total.samples.len() < 4 {
                                total.samples.push(s);
                            }
                        }
                        total.violations.extend(r.violations);
                        for k in r.known_hits {
                            if !total.known_hits.iter().any(|x| x.signature == k.signature) {
                                total.known_hits.push(k);
                            }
                        }
                        if let Some(inc) = r.inconclusive {
                            infra_errors.push(format!("worker {i}: {inc}"));
                        }
                    }
                    Err(e) => infra_errors.push(format!("worker {i}: bad result json: {e}")),
                }
            } else if let Some(rest) = line.strip_prefix("@@HANG ") {
                hangs.push(rest.to_string());
                got = true;
            }
        }
        if !got {
            let tail: String = stderr_text.lines().rev().take(15).collect::<Vec<_>>().into_iter().rev().collect::<Vec<_>>().join("\n");
            infra_errors.push(format!(
                "worker {i} produced no result (status {:?}); stderr tail:\n{tail}",
                status
            ));
        }
    }

    // Hangs: re-run alone in a fresh process to confirm.
    let mut confirmed_hangs = vec![];
    for h in hangs {
        let st = Command::new(&exe)
            .arg(id)
            .arg("--tier")
            .arg(tier.name())
            .arg("--replay")
            .arg(&h)
            .arg("--hang-probe")
            .stdin(Stdio::null())
            .stdout(Stdio::null())
            .stderr(Stdio::null())
            .spawn();
        match st {
            Ok(mut c) => {
                let limit = case_time_limit() * 2;
                let t0 = Instant::now();
                let mut hung = true;
                while t0.elapsed() < limit {
                    if let Ok(Some(_)) = c.try_wait() {
                        hung = false;
                        break;
                    }
                    std::thread::sleep(Duration::from_millis(200));
                }
                if hung {
                    let _ = c.kill();
                    let _ = c.wait();
                    confirmed_hangs.push(h);
                } else {
                    infra_errors.push(format!("case {h} exceeded the limit once but not when re-run alone"));
                }
            }
            Err(e) => infra_errors.push(format!("could not re-run hang candidate: {e}")),
        }
    }
    let hang_is_violation = matches!(id, "C08" | "C10");
    for h in &confirmed_hangs {
        if hang_is_violation {
            total.violations.push(ViolationRec {
                signature: format!("{id}/hang"),
                message: "operation did not terminate (confirmed by a second run alone)".into(),
                replay: h.clone(),
            });
        } else {
            infra_errors.push(format!("confirmed hang in {h} (not a violation of {id} by itself)"));
        }
    }

    force_remove(&logdir);
    let distinct = hashes.len() as u64 + total.nontrivial_enumerated;
    let wall = start.elapsed().as_secs_f64();

    // Known findings: every open finding must be announced (canaries live in corpus/).
    let known = load_known(id);
    for k in &total.known_hits {
        println!("KNOWN-FINDING: property={} {} :: {}", id, k.signature, one_line(&k.message));
    }
    let mut seen_sigs = BTreeSet::new();
    let mut uniq_violations = vec![];
    for v in &total.violations {
        if seen_sigs.insert(v.signature.clone()) {
            uniq_violations.push(v.clone());
        }
    }
    for v in &uniq_violations {
        println!("VIOLATION property={} replay={}", id, v.replay);
        println!("  signature: {}", v.signature);
        println!("  {}", one_line(&v.message));
    }

    let mut coverage = json!({
        "evaluations": total.evaluations,
        "distinct_nontrivial": distinct,
        "rule": prop.rule(),
        "samples": total.samples,
        "generated_cases": total.cases,
        "class_histogram": total.labels,
        "excluded_known": total.excluded_known,
        "corpus_replayed": total.corpus_replayed,
        "workers": nworkers,
        "known_findings_open": known.iter().filter(|k| k.status=="open").map(|k| k.signature.clone()).collect::<Vec<_>>(),
        "known_findings_reproduced": total.known_hits.iter().map(|k| k.signature.clone()).collect::<Vec<_>>(),
    });
    if prop.exhaustive(tier) {
        coverage["exhaustive"] = json!(true);
    }
    if !uniq_violations.is_empty() {
        coverage["violation_signatures"] =
            json!(uniq_violations.iter().map(|v| v.signature.clone()).collect::<Vec<_>>());
    }
    if !infra_errors.is_empty() {
        coverage["infrastructure_errors"] = json!(infra_errors);
    }
    let evidence = json!({
        "property_id": id,
        "tier": tier.name(),
        "seed": seed,
        "level": prop.level(),
        "coverage": coverage,
        "assumptions": prop.assumptions(),
        "wall_s": (wall * 1000.0).round() / 1000.0,
        "violations": uniq_violations.len(),
    });
    let evdir = verif_dir().join("evidence");
    std::fs::create_dir_all(&evdir).expect("create evidence dir");
    std::fs::write(
        evdir.join(format!("{id}.json")),
        serde_json::to_string_pretty(&evidence).unwrap() + "\n",
    )
    .expect("write evidence");

    println!(
        "{id} {}: cases={} evaluations={} distinct_nontrivial={} corpus={} known={} violations={} wall={:.1}s",
        tier.name(),
        total.cases,
        total.evaluations,
        distinct,
        total.corpus_replayed,
        total.known_hits.len(),
        uniq_violations.len(),
        wall
    );
    let exit_code = if !uniq_violations.is_empty() {
        1
    } else if !infra_errors.is_empty() {
        for e in &infra_errors {
            eprintln!("INCONCLUSIVE: {e}");
        }
        2
    } else {
        0
    };
    ParentOutcome { exit_code }
}

pub fn one_line(s: &str) -> String {
    let s: String = s.chars().map(|c| if c == '\n' { ' ' } else { c }).collect();
    if s.len() > 600 {
        let mut cut = 600;
        while !s.is_char_boundary(cut) {
            cut -= 1;
        }
        format!("{}…", &s[..cut])
    } else {
        s
    }
}

/// Generate one value from a strategy with a given seed (used by enumeration phases that
/// need a few generated scenarios).
pub fn sample_strategy<T: std::fmt::Debug>(s: &BoxedStrategy<T>, seed: u64) -> T {
    let mut seed_bytes = [0u8; 32];
    for (i, chunk) in seed_bytes.chunks_mut(8).enumerate() {
        chunk.copy_from_slice(&mix(seed, i as u64).to_le_bytes());
    }
    let rng = TestRng::from_seed(RngAlgorithm::ChaCha, &seed_bytes);
    let mut runner = TestRunner::new_with_rng(Config::default(), rng);
    s.new_tree(&mut runner).expect("generate").current()
}
