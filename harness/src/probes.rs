//! Scale probes: a few fixed, large scenarios that put the same oracles on inputs beyond
//! the size bounds of the generators (more than 10 000 index hunks = a second index
//! sub-directory, blocks of several MiB, hundreds of hunks in a basis band). They run in
//! the enumeration phase of one worker.

use crate::ops::Opts;
use crate::tree::{self, Kind, Meta, Node, Tree};

pub fn plain_meta() -> Meta {
    Meta { mode: 0o644, mtime_s: 1_500_000_000, mtime_ns: 0, uid: 0, gid: 0 }
}

/// n files over two directories; with `hunk: 1` this gives n + 3 index hunks.
pub fn many_hunks_tree(n: usize) -> (Opts, Tree) {
    let opts = Opts { hunk: 1, block: 1 << 16, cap: 1 << 20 };
    (opts, tree::wide_tree(n, 2, 3, plain_meta()))
}

/// Files whose blocks are several MiB: one 6 MiB, two identical 5.5 MiB, one of 1 MiB + 7
/// bytes, two at the default small-file cap (combined), one of 20 MiB + 5 (two blocks with
/// the default block size), one small.
pub fn big_blocks_tree() -> (Opts, Tree) {
    let mut t = Tree::empty_root(Meta { mode: 0o755, ..plain_meta() });
    let m = plain_meta();
    for (name, pool, len) in [
        ("big6m", 3u8, 6u32 << 20),
        ("dup-a", 4, (11u32 << 19) + 3),
        ("dup-b", 4, (11u32 << 19) + 3),
        ("mib-plus-7", 5, (1u32 << 20) + 7),
        // around the default small-file cap (1 MiB) and over the default block size (20 MiB)
        ("at-cap", 6, 1u32 << 20),
        ("cap-minus-1", 7, (1u32 << 20) - 1),
        ("over-default-block", 2, (20u32 << 20) + 5),
        ("small", 6, 100),
    ] {
        t.0.insert(format!("/{name}"), Node { kind: Kind::File { pool, len }, meta: m });
    }
    (Opts::defaults(), t)
}

/// Blocks larger than the default maximum: a backup run with a 64 MiB block size over files
/// of 40 MiB and 33 MiB + 1 (each stored as one block) and a small one.
pub fn huge_block_tree() -> (Opts, Tree) {
    let mut t = Tree::empty_root(Meta { mode: 0o755, ..plain_meta() });
    let m = plain_meta();
    for (name, pool, len) in [("forty-mib", 3u8, 40u32 << 20), ("thirty-three-mib-plus-1", 4, (33u32 << 20) + 1), ("small", 6, 10)] {
        t.0.insert(format!("/{name}"), Node { kind: Kind::File { pool, len }, meta: m });
    }
    (Opts { block: 64 << 20, ..Opts::defaults() }, t)
}

/// A block size between the generated range (up to 2 KiB) and the default (20 MiB), and not
/// a round one: 1 500 000 bytes, with files of several blocks, of exactly two blocks, of one
/// block plus a byte, and just over the small-file cap.
pub fn odd_block_size_tree() -> (Opts, Tree) {
    let mut t = Tree::empty_root(Meta { mode: 0o755, ..plain_meta() });
    let m = plain_meta();
    for (name, pool, len) in [
        ("four-mib-plus-3", 3u8, (4u32 << 20) + 3),
        ("two-blocks-exactly", 4, 3_000_000),
        ("one-block-plus-1", 5, 1_500_001),
        ("just-over-the-cap", 6, (1u32 << 20) + 1),
        ("small", 7, 33),
    ] {
        t.0.insert(format!("/{name}"), Node { kind: Kind::File { pool, len }, meta: m });
    }
    (Opts { block: 1_500_000, ..Opts::defaults() }, t)
}

/// One very large file (272 MiB, fourteen blocks with default options) between small files
/// that sort before and after it.
pub fn huge_file_tree() -> (Opts, Tree) {
    let mut t = Tree::empty_root(Meta { mode: 0o755, ..plain_meta() });
    let m = plain_meta();
    for (name, pool, len) in [
        ("aaa-small", 5u8, 50u32),
        ("abc-small", 6, 700),
        ("big.bin", 2, 272u32 << 20),
        ("zzz-small", 7, 60),
    ] {
        t.0.insert(format!("/{name}"), Node { kind: Kind::File { pool, len }, meta: m });
    }
    (Opts::defaults(), t)
}

/// One index hunk of more than 32 MiB with default options: 10 000 small files at the end of
/// a chain of thirteen directories with 250-byte names (every path is about 3.3 KB long).
pub fn big_hunk_tree() -> (Opts, Tree) {
    let m = plain_meta();
    let mut t = Tree::empty_root(Meta { mode: 0o755, ..m });
    let mut dir = String::new();
    for level in 0..13 {
        let c = (b'a' + level as u8) as char;
        dir.push('/');
        dir.push_str(&c.to_string().repeat(250));
        t.0.insert(dir.clone(), Node { kind: Kind::Dir, meta: Meta { mode: 0o755, ..m } });
    }
    for i in 0..10_000usize {
        let pool = 2 + (i % 6) as u8;
        let len = 1 + (i / 6) as u32 % 40;
        t.0.insert(format!("{dir}/f{i:05}"), Node { kind: Kind::File { pool, len }, meta: Meta { mtime_s: m.mtime_s + i as i64, ..m } });
    }
    (Opts::defaults(), t)
}

/// More entries than one index hunk takes with the *default* options (100 000): 100 200
/// files of 256 bytes in four directories, 25 MB in all, so that with the default block
/// size a combined block is stored while the first hunk is still being filled.
pub fn over_default_hunk_tree() -> (Opts, Tree) {
    let m = plain_meta();
    let mut t = Tree::empty_root(Meta { mode: 0o755, ..m });
    for d in 0..4usize {
        let dir = format!("/d{d}");
        t.0.insert(dir.clone(), Node { kind: Kind::Dir, meta: Meta { mode: 0o755, ..m } });
        for i in 0..25_050usize {
            t.0.insert(
                format!("{dir}/f{i:05}"),
                Node { kind: Kind::File { pool: 2 + ((i + d) % 6) as u8, len: 256 }, meta: Meta { mtime_s: m.mtime_s + (i % 1000) as i64, ..m } },
            );
        }
    }
    (Opts::defaults(), t)
}

/// 700 directories (20 x 35, each with its own mode and mtime and one small file): more
/// directories than the open-file limit that `with_fd_limit` sets for the probe.
pub fn many_dirs_tree() -> (Opts, Tree) {
    let m = plain_meta();
    let mut t = Tree::empty_root(Meta { mode: 0o755, ..m });
    for i in 0..20usize {
        let top = format!("/t{i:02}");
        t.0.insert(top.clone(), Node { kind: Kind::Dir, meta: Meta { mode: 0o750, mtime_s: m.mtime_s - 1000 - i as i64, ..m } });
        for j in 0..35usize {
            let d = format!("{top}/s{j:02}");
            t.0.insert(d.clone(), Node { kind: Kind::Dir, meta: Meta { mode: 0o700 + (j as u32 % 8) * 8, mtime_s: m.mtime_s - 5000 - (i * 35 + j) as i64, mtime_ns: 7, ..m } });
            t.0.insert(format!("{d}/f"), Node { kind: Kind::File { pool: 2 + (j % 6) as u8, len: 10 + (i * 35 + j) as u32 }, meta: m });
        }
    }
    (Opts { hunk: 1000, block: 1 << 16, cap: 1 << 10 }, t)
}

/// Run `f` with the soft limit on open files lowered to `n` (a stock shell has 1024; this
/// sandbox 20 000), and put the old limit back afterwards. Cases run one at a time in a
/// worker, so nothing else in the process is affected.
pub fn with_fd_limit<T>(n: u64, f: impl FnOnce() -> T) -> T {
    let mut old = libc::rlimit { rlim_cur: 0, rlim_max: 0 };
    unsafe { libc::getrlimit(libc::RLIMIT_NOFILE, &mut old) };
    let low = libc::rlimit { rlim_cur: n.min(old.rlim_max), rlim_max: old.rlim_max };
    unsafe { libc::setrlimit(libc::RLIMIT_NOFILE, &low) };
    struct Restore(libc::rlimit);
    impl Drop for Restore {
        fn drop(&mut self) {
            unsafe { libc::setrlimit(libc::RLIMIT_NOFILE, &self.0) };
        }
    }
    let _r = Restore(old);
    f()
}

/// Should this worker run the probes? (one worker, not the corpus-replaying one)
pub fn mine(idx: u32, of: u32) -> bool {
    idx == of / 2
}
