//! vcheck: property-based checks of sourcefrog/conserve (see /verif/DESIGN.md).

mod damage;
mod engine;
mod format;
mod history;
mod hooks;
mod ops;
mod probes;
mod props;
mod race;
mod scen;
mod tree;

use std::path::PathBuf;

use engine::{Tier, WorkerArgs};

fn usage() -> ! {
    eprintln!(
        "usage: vcheck <ID> [--tier quick|thorough] [--workers N] [--replay FILE]\n       vcheck list"
    );
    std::process::exit(2);
}

fn main() {
    let args: Vec<String> = std::env::args().skip(1).collect();
    if args.is_empty() {
        usage();
    }
    if args[0] == "list" {
        for p in props::all() {
            println!("{}", p.id());
        }
        return;
    }
    let id = args[0].clone();
    let mut tier = match std::env::var("VERIF_TIER").as_deref() {
        Ok("thorough") => Tier::Thorough,
        _ => Tier::Quick,
    };
    let mut workers: u32 = std::thread::available_parallelism()
        .map(|n| n.get() as u32)
        .unwrap_or(8)
        .min(16);
    let mut worker: Option<(u32, u32)> = None;
    let mut widx = 0u32;
    let mut wof = 0u32;
    let mut replay: Option<PathBuf> = None;
    let mut i = 1;
    while i < args.len() {
        match args[i].as_str() {
            "--tier" => {
                i += 1;
                tier = match args.get(i).map(|s| s.as_str()) {
                    Some("quick") => Tier::Quick,
                    Some("thorough") => Tier::Thorough,
                    _ => usage(),
                };
            }
            "--workers" => {
                i += 1;
                workers = args.get(i).and_then(|s| s.parse().ok()).unwrap_or_else(|| usage());
            }
            "--worker" => {
                i += 1;
                widx = args.get(i).and_then(|s| s.parse().ok()).unwrap_or_else(|| usage());
                worker = Some((widx, wof));
            }
            "--of" => {
                i += 1;
                wof = args.get(i).and_then(|s| s.parse().ok()).unwrap_or_else(|| usage());
                worker = Some((widx, wof));
            }
            "--replay" => {
                i += 1;
                replay = Some(PathBuf::from(args.get(i).unwrap_or_else(|| usage())));
            }
            "--hang-probe" => {}
            _ => usage(),
        }
        i += 1;
    }
    let seed: u64 = std::env::var("VERIF_SEED")
        .ok()
        .and_then(|s| s.trim().parse::<i128>().ok())
        .map(|v| v as u64)
        .unwrap_or(0);
    let all = props::all();
    let Some(prop) = all.iter().find(|p| p.id() == id) else {
        eprintln!("unknown property {id}");
        std::process::exit(2);
    };
    ops::init_process();
    tree::check_owner_ids();
    if let Some(path) = replay {
        let rep = prop.replay(&path, tier);
        engine::force_remove(&engine::scratch_root());
        for k in &rep.known_hits {
            println!("KNOWN-FINDING: property={} {} :: {}", id, k.signature, engine::one_line(&k.message));
        }
        match rep.result {
            Ok(()) => {
                println!("replay {}: property held", path.display());
                std::process::exit(0);
            }
            Err(f) => {
                let known = engine::load_known(&id);
                if known.iter().any(|k| k.status == "open" && k.signature == f.signature) {
                    println!("KNOWN-FINDING: property={} {} :: {}", id, f.signature, engine::one_line(&f.message));
                    std::process::exit(0);
                }
                println!("VIOLATION property={} replay={}", id, path.display());
                println!("  signature: {}", f.signature);
                println!("  {}", f.message);
                if !f.inner.is_null() {
                    println!("  inner: {}", f.inner);
                }
                std::process::exit(1);
            }
        }
    }
    if let Some((index, of)) = worker {
        engine::run_worker_main(
            prop.as_ref(),
            &WorkerArgs {
                tier,
                seed,
                index,
                of: of.max(1),
            },
        );
    }
    let out = engine::run_parent(prop.as_ref(), tier, seed, workers.max(1));
    std::process::exit(out.exit_code);
}
