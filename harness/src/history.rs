//! Histories: operation sequences over one source directory and one archive, with a model.

use std::collections::BTreeMap;
use std::path::{Path, PathBuf};
use std::sync::Arc;

use proptest::prelude::*;
use serde::{Deserialize, Serialize};

use crate::format;
use crate::hooks::{Ctl, Logged, Plan};
use crate::ops::{self, BackupOut, Hook, OpReport, Opts};
use crate::tree::{self, Kind, Meta, Node, Tree, TreeCfg};

#[derive(Debug, Clone, Serialize, Deserialize)]
pub enum Edit {
    AddFile { dir: u16, name: String, pool: u8, len: u32, meta: Meta },
    AddDir { dir: u16, name: String, meta: Meta },
    AddLink { dir: u16, name: String, target: String, meta: Meta },
    /// Change content: new pool, same or different length, always a new mtime.
    Modify { idx: u16, pool: u8, dlen: i8, mtime_s: i64, mtime_ns: u32 },
    /// Change only the mtime.
    Touch { idx: u16, mtime_s: i64, mtime_ns: u32 },
    Remove { idx: u16 },
    Rename { idx: u16, name: String },
    Chmod { idx: u16, mode: u32 },
    Chown { idx: u16, uid: u32, gid: u32 },
    /// file/symlink -> directory with one file in it; directory -> file.
    SwapKind { idx: u16, pool: u8, len: u32 },
    Retarget { idx: u16, target: String },
    /// A file disappears and a *different* file of the same name, length and mtime appears in
    /// another directory (not a move: other content).
    Impostor { idx: u16, dir: u16, pool: u8 },
    /// Change content keeping the length, the new mtime being the old one plus `dns`
    /// nanoseconds: a rewrite that lands in the same second, or a nanosecond later.
    Nudge { idx: u16, pool: u8, dns: u32 },
}

#[derive(Debug, Clone, Serialize, Deserialize)]
pub enum Op {
    Mutate(Vec<Edit>),
    Backup(Opts),
    /// Backup stopped (storage frozen) before its k-th mutating storage operation.
    BackupInterrupted { opts: Opts, k: u16, torn: bool },
    /// Delete the bands selected by these indices into the current band list.
    Delete { sel: Vec<u16>, dry_run: bool },
    Gc,
}

fn pick<'a, T>(v: &'a [T], i: u16) -> Option<&'a T> {
    if v.is_empty() {
        None
    } else {
        Some(&v[(i as usize * v.len()) >> 16])
    }
}

fn next_mtime(old: (i64, u32), new: (i64, u32)) -> (i64, u32) {
    if old == new { (new.0 + 1, new.1) } else { new }
}

/// Apply an edit to the model tree. Edits that do not apply (no such index) are no-ops.
pub fn apply_edit(t: &mut Tree, e: &Edit) {
    let non_root: Vec<String> = t.0.keys().filter(|k| k.as_str() != "/").cloned().collect();
    let dirs = t.dirs();
    match e {
        Edit::AddFile { dir, name, pool, len, meta } => {
            let d = pick(&dirs, *dir).unwrap().clone();
            let p = tree::join(&d, name);
            t.0.entry(p).or_insert(Node {
                kind: Kind::File { pool: *pool, len: *len },
                meta: *meta,
            });
        }
        Edit::AddDir { dir, name, meta } => {
            let d = pick(&dirs, *dir).unwrap().clone();
            let p = tree::join(&d, name);
            t.0.entry(p).or_insert(Node { kind: Kind::Dir, meta: *meta });
        }
        Edit::AddLink { dir, name, target, meta } => {
            let d = pick(&dirs, *dir).unwrap().clone();
            let p = tree::join(&d, name);
            t.0.entry(p).or_insert(Node {
                kind: Kind::Link { target: target.clone() },
                meta: *meta,
            });
        }
        Edit::Modify { idx, pool, dlen, mtime_s, mtime_ns } => {
            let files: Vec<String> = non_root.iter().filter(|p| t.0[*p].is_file()).cloned().collect();
            if let Some(p) = pick(&files, *idx) {
                let n = t.0.get_mut(p).unwrap();
                if let Kind::File { pool: op, len } = &mut n.kind {
                    let new_pool = if *pool == *op { (*pool + 1) % 8 } else { *pool };
                    *op = new_pool;
                    *len = (*len as i64 + *dlen as i64).clamp(0, 8192) as u32;
                }
                let (s, ns) = next_mtime((n.meta.mtime_s, n.meta.mtime_ns), (*mtime_s, *mtime_ns));
                n.meta.mtime_s = s;
                n.meta.mtime_ns = ns;
            }
        }
        Edit::Nudge { idx, pool, dns } => {
            let files: Vec<String> = non_root.iter().filter(|p| t.0[*p].is_file()).cloned().collect();
            if let Some(p) = pick(&files, *idx) {
                let n = t.0.get_mut(p).unwrap();
                if let Kind::File { pool: op, .. } = &mut n.kind {
                    *op = if *pool == *op { (*pool + 1) % 8 } else { *pool };
                }
                let total = n.meta.mtime_ns as u64 + (*dns).max(1) as u64;
                n.meta.mtime_s += (total / 1_000_000_000) as i64;
                n.meta.mtime_ns = (total % 1_000_000_000) as u32;
            }
        }
        Edit::Touch { idx, mtime_s, mtime_ns } => {
            if let Some(p) = pick(&non_root, *idx) {
                let n = t.0.get_mut(p).unwrap();
                let (s, ns) = next_mtime((n.meta.mtime_s, n.meta.mtime_ns), (*mtime_s, *mtime_ns));
                n.meta.mtime_s = s;
                n.meta.mtime_ns = ns;
            }
        }
        Edit::Remove { idx } => {
            if let Some(p) = pick(&non_root, *idx) {
                let p = p.clone();
                t.remove_subtree(&p);
            }
        }
        Edit::Rename { idx, name } => {
            if let Some(p) = pick(&non_root, *idx) {
                let p = p.clone();
                let parent = tree::parent_of(&p).unwrap().to_string();
                let np = tree::join(&parent, name);
                if !t.0.contains_key(&np) && !tree::under(&p, &np) {
                    let moved: Vec<(String, Node)> = t
                        .0
                        .iter()
                        .filter(|(k, _)| tree::under(&p, k))
                        .map(|(k, v)| (format!("{np}{}", &k[p.len()..]), v.clone()))
                        .collect();
                    t.remove_subtree(&p);
                    for (k, v) in moved {
                        t.0.insert(k, v);
                    }
                }
            }
        }
        Edit::Chmod { idx, mode } => {
            let cands: Vec<String> = non_root.iter().filter(|p| !t.0[*p].is_link()).cloned().collect();
            if let Some(p) = pick(&cands, *idx) {
                t.0.get_mut(p).unwrap().meta.mode = *mode;
            }
        }
        Edit::Chown { idx, uid, gid } => {
            if let Some(p) = pick(&non_root, *idx) {
                let n = t.0.get_mut(p).unwrap();
                n.meta.uid = *uid;
                n.meta.gid = *gid;
            }
        }
        Edit::SwapKind { idx, pool, len } => {
            if let Some(p) = pick(&non_root, *idx) {
                let p = p.clone();
                let meta = t.0[&p].meta;
                if t.0[&p].is_dir() {
                    t.remove_subtree(&p);
                    t.0.insert(
                        p,
                        Node {
                            kind: Kind::File { pool: *pool, len: *len },
                            meta: Meta { mode: 0o644, ..meta },
                        },
                    );
                } else {
                    t.0.insert(
                        p.clone(),
                        Node {
                            kind: Kind::Dir,
                            meta: Meta { mode: 0o755, ..meta },
                        },
                    );
                    t.0.insert(
                        tree::join(&p, "f"),
                        Node {
                            kind: Kind::File { pool: *pool, len: *len },
                            meta: Meta { mode: 0o600, ..meta },
                        },
                    );
                }
            }
        }
        Edit::Impostor { idx, dir, pool } => {
            let files: Vec<String> = non_root.iter().filter(|p| matches!(t.0[*p].kind, Kind::File { len, .. } if len > 0)).cloned().collect();
            if let (Some(f), Some(d)) = (pick(&files, *idx).cloned(), pick(&dirs, *dir).cloned()) {
                let to = tree::join(&d, tree::base_name(&f));
                if to != f && !t.0.contains_key(&to) {
                    let mut node = t.0.remove(&f).unwrap();
                    if let Kind::File { pool: old, len } = node.kind {
                        let np = if *pool == old { (old + 1) % 8 } else { *pool };
                        node.kind = Kind::File { pool: np, len };
                    }
                    t.0.insert(to, node);
                }
            }
        }
        Edit::Retarget { idx, target } => {
            let links: Vec<String> = non_root.iter().filter(|p| t.0[*p].is_link()).cloned().collect();
            if let Some(p) = pick(&links, *idx) {
                let n = t.0.get_mut(p).unwrap();
                if let Kind::Link { target: old } = &mut n.kind {
                    // two special values spell the old target differently: other bytes that
                    // name the same components (a trailing '/', a doubled '/', a '/.' )
                    *old = match target.as_str() {
                        "@RESPELL1@" if old.len() > 1 && old.ends_with('/') => old.trim_end_matches('/').to_string(),
                        "@RESPELL1@" => format!("{old}/"),
                        "@RESPELL2@" if old.contains('/') => old.replacen('/', "//", 1),
                        "@RESPELL2@" => format!("{old}/."),
                        _ if *old == *target => format!("{target}x"),
                        _ => target.clone(),
                    };
                    if old.is_empty() {
                        *old = ".".to_string();
                    }
                }
            }
        }
    }
    // A full tree budget: keep the model small.
    while t.0.len() > 60 {
        let last = t.0.keys().next_back().unwrap().clone();
        t.remove_subtree(&last);
    }
}

// ---------------------------------------------------------------------------
// Generators

pub fn edit_strategy(cfg: TreeCfg) -> BoxedStrategy<Edit> {
    let idx = any::<u16>();
    let name = tree::name_strategy_for(cfg);
    let small_len = prop_oneof![Just(0u32), 1u32..200, 200u32..3000];
    prop_oneof![
        4 => (idx, name.clone(), 0u8..8, small_len.clone(), tree::meta_strategy(cfg, false))
            .prop_map(|(dir, name, pool, len, meta)| Edit::AddFile { dir, name, pool, len, meta }),
        2 => (idx, name.clone(), tree::meta_strategy(cfg, true))
            .prop_map(|(dir, name, meta)| Edit::AddDir { dir, name, meta }),
        1 => (idx, name.clone(), tree::link_target_strategy(), tree::meta_strategy(cfg, false))
            .prop_map(|(dir, name, target, meta)| Edit::AddLink { dir, name, target, meta }),
        5 => (idx, 0u8..8, prop_oneof![3 => Just(0i8), 1 => -3i8..=3], tree::mtime_strategy(cfg))
            .prop_map(|(idx, pool, dlen, (mtime_s, mtime_ns))| Edit::Modify { idx, pool, dlen, mtime_s, mtime_ns }),
        2 => (idx, tree::mtime_strategy(cfg))
            .prop_map(|(idx, (mtime_s, mtime_ns))| Edit::Touch { idx, mtime_s, mtime_ns }),
        2 => (idx, 0u8..8, prop_oneof![2 => Just(1u32), 2 => 1u32..1000, 3 => 1000u32..999_999_999, 1 => Just(1_000_000_000u32)])
            .prop_map(|(idx, pool, dns)| Edit::Nudge { idx, pool, dns }),
        3 => idx.prop_map(|idx| Edit::Remove { idx }),
        2 => (idx, name).prop_map(|(idx, name)| Edit::Rename { idx, name }),
        1 => (idx, tree::mode_strategy(cfg, false)).prop_map(|(idx, mode)| Edit::Chmod { idx, mode }),
        1 => (idx, prop::sample::select(tree::UIDS), prop::sample::select(tree::GIDS))
            .prop_map(|(idx, uid, gid)| Edit::Chown { idx, uid, gid }),
        2 => (idx, 0u8..8, small_len).prop_map(|(idx, pool, len)| Edit::SwapKind { idx, pool, len }),
        1 => (idx, any::<u16>(), 0u8..8).prop_map(|(idx, dir, pool)| Edit::Impostor { idx, dir, pool }),
        1 => (idx, tree::link_target_strategy()).prop_map(|(idx, target)| Edit::Retarget { idx, target }),
        1 => (idx, prop::sample::select(vec!["@RESPELL1@", "@RESPELL2@"])).prop_map(|(idx, t)| Edit::Retarget { idx, target: t.to_string() }),
    ]
    .boxed()
}

#[derive(Debug, Clone, Copy)]
pub struct HistCfg {
    pub tree: TreeCfg,
    pub max_ops: usize,
    pub interrupts: bool,
    pub deletes: bool,
}

pub fn op_strategy(cfg: HistCfg) -> BoxedStrategy<Op> {
    let mut choices: Vec<(u32, BoxedStrategy<Op>)> = vec![
        (5, prop::collection::vec(edit_strategy(cfg.tree), 1..6).prop_map(Op::Mutate).boxed()),
        (5, tree::opts_strategy().prop_map(Op::Backup).boxed()),
    ];
    if cfg.interrupts {
        choices.push((
            2,
            // early stops (band directory without a head, head without hunks) as often as late ones
            (tree::opts_strategy(), prop_oneof![1 => 0u16..4, 3 => 0u16..40], prop::bool::weighted(0.3))
                .prop_map(|(opts, k, torn)| Op::BackupInterrupted { opts, k, torn })
                .boxed(),
        ));
    }
    if cfg.deletes {
        choices.push((
            2,
            (prop::collection::vec(any::<u16>(), 0..3), prop::bool::weighted(0.15))
                .prop_map(|(sel, dry_run)| Op::Delete { sel, dry_run })
                .boxed(),
        ));
        choices.push((1, Just(Op::Gc).boxed()));
    }
    proptest::strategy::Union::new_weighted(choices).boxed()
}

#[derive(Debug, Clone, Serialize, Deserialize)]
pub struct History {
    pub initial: Tree,
    pub ops: Vec<Op>,
    /// Number of the first version. Conserve always starts at b0000; a non-zero value renames
    /// the first band directory right after it appears (9998 makes later ids cross from four
    /// to five digits, which the format explicitly allows).
    #[serde(default)]
    pub first_band_id: u32,
}

pub fn history_strategy(cfg: HistCfg) -> BoxedStrategy<History> {
    (
        tree::tree_strategy(
            TreeCfg {
                max_children: 4,
                ..cfg.tree
            },
            Opts { hunk: 4, block: 256, cap: 100 },
        ),
        prop::collection::vec(op_strategy(cfg), 1..=cfg.max_ops),
        prop_oneof![9 => Just(0u32), 1 => Just(9998u32)],
    )
        .prop_map(|(initial, ops, first_band_id)| History { initial, ops, first_band_id })
        .boxed()
}

// ---------------------------------------------------------------------------
// Interpreter

#[derive(Debug, Clone, PartialEq)]
pub enum BandState {
    /// Closed band and the tree the source held when it was made.
    Complete(Tree),
    Incomplete,
}

pub struct World {
    pub src: PathBuf,
    pub arch: PathBuf,
    pub tree: Tree,
    pub bands: BTreeMap<u32, BandState>,
    /// Highest band id ever seen (ids must keep increasing).
    pub max_id_seen: Option<u32>,
    /// The source tree at every backup attempt so far (complete or interrupted).
    pub backed_up: Vec<Tree>,
    /// If non-zero: rename the first band directory that appears to this number.
    pub first_band_id: u32,
}

#[derive(Debug)]
pub enum StepKind {
    Mutated,
    Backup {
        report: OpReport<BackupOut>,
        log: Vec<Logged>,
        interrupted: bool,
        new_band: Option<u32>,
        opts: Opts,
    },
    Delete {
        report: OpReport<conserve::DeleteStats>,
        log: Vec<Logged>,
        requested: Vec<u32>,
        dry_run: bool,
    },
}

impl World {
    pub fn new(scratch: &Path, initial: &Tree) -> World {
        let src = scratch.join("src");
        let arch = scratch.join("arch");
        tree::materialise(initial, &src);
        let c = ops::create_archive(&arch);
        assert!(c.clean(), "create archive: {}", c.describe());
        World {
            src,
            arch,
            tree: initial.clone(),
            bands: BTreeMap::new(),
            max_id_seen: None,
            backed_up: vec![],
            first_band_id: 0,
        }
    }

    pub fn for_history(scratch: &Path, h: &History) -> World {
        let mut w = World::new(scratch, &h.initial);
        w.first_band_id = h.first_band_id;
        w
    }

    /// The documented unchanged-file heuristic is (kind, mtime, size): a file whose content
    /// differs from what some earlier backup attempt saw at the same path, but whose size
    /// and mtime are both the same as then, is outside what conserve promises to notice.
    /// Such coincidences (e.g. modify -> backup -> touch -> modify back to the old mtime)
    /// are removed from the model by moving the mtime on by whole seconds.
    pub fn keep_changes_visible(&mut self) {
        let paths: Vec<String> = self.tree.0.keys().cloned().collect();
        for p in paths {
            loop {
                let n = &self.tree.0[&p];
                let Kind::File { pool, len } = n.kind else { break };
                let (ms, mns) = (n.meta.mtime_s, n.meta.mtime_ns);
                let clash = self.backed_up.iter().any(|t| match t.0.get(&p) {
                    Some(Node { kind: Kind::File { pool: op, len: ol }, meta }) => {
                        *ol == len && (meta.mtime_s, meta.mtime_ns) == (ms, mns) && *op != pool && len > 0
                    }
                    _ => false,
                });
                if !clash {
                    break;
                }
                self.tree.0.get_mut(&p).unwrap().meta.mtime_s += 1;
            }
        }
    }

    pub fn complete_bands(&self) -> Vec<(u32, &Tree)> {
        self.bands
            .iter()
            .filter_map(|(id, s)| match s {
                BandState::Complete(t) => Some((*id, t)),
                _ => None,
            })
            .collect()
    }

    /// Re-derive band states for bands not known to the model from the directory
    /// (used after an interrupted backup).
    fn sync_new_band(&mut self, before_ids: &[u32]) -> Option<u32> {
        if self.first_band_id != 0 && before_ids.is_empty() && self.arch.join("b0000").is_dir() {
            // the very first band: give it the requested number
            let to = self.arch.join(format::band_dirname(self.first_band_id));
            std::fs::rename(self.arch.join("b0000"), to).expect("rename first band");
        }
        let ra = format::scan(&self.arch);
        let mut new_band = None;
        for (id, b) in &ra.bands {
            if !before_ids.contains(id) {
                new_band = Some(*id);
                // A tail that exists at all (even the zero-length leftover of a killed write)
                // makes the version complete for conserve; every hunk was written before it,
                // so the version holds exactly the current source.
                let st = if !b.tail.is_absent() {
                    BandState::Complete(self.tree.clone())
                } else {
                    BandState::Incomplete
                };
                self.bands.insert(*id, st);
                self.max_id_seen = Some(self.max_id_seen.map_or(*id, |m| m.max(*id)));
            }
        }
        new_band
    }

    pub fn band_ids_on_disk(&self) -> Vec<u32> {
        format::scan(&self.arch).bands.keys().copied().collect()
    }

    /// Apply one operation to the real directories and the model.
    pub fn apply(&mut self, op: &Op) -> StepKind {
        match op {
            Op::Mutate(edits) => {
                let old = self.tree.clone();
                for e in edits {
                    apply_edit(&mut self.tree, e);
                }
                self.keep_changes_visible();
                self.tree.check_invariant();
                tree::rematerialise(&old, &self.tree, &self.src);
                StepKind::Mutated
            }
            Op::Backup(opts) => self.do_backup(*opts, Plan::None),
            Op::BackupInterrupted { opts, k, torn } => self.do_backup(
                *opts,
                Plan::FreezeAtMutating {
                    k: *k as usize,
                    torn: *torn,
                },
            ),
            Op::Delete { sel, dry_run } => {
                let ids: Vec<u32> = self.bands.keys().copied().collect();
                let mut requested: Vec<u32> = sel.iter().filter_map(|i| pick(&ids, *i).copied()).collect();
                requested.sort();
                requested.dedup();
                self.do_delete(requested, *dry_run)
            }
            Op::Gc => self.do_delete(vec![], false),
        }
    }

    fn do_backup(&mut self, opts: Opts, plan: Plan) -> StepKind {
        self.backed_up.push(self.tree.clone());
        let before_ids = self.band_ids_on_disk();
        let ctl = Ctl::new(&self.arch, plan);
        let hook: Hook = Some(ctl.clone() as Arc<dyn conserve::transport::verif::Interceptor>);
        let report = ops::backup(&self.arch, &hook, &self.src, opts, &[]);
        let interrupted = ctl.triggered();
        let new_band = self.sync_new_band(&before_ids);
        StepKind::Backup {
            report,
            log: ctl.log(),
            interrupted,
            new_band,
            opts,
        }
    }

    /// A backup killed just before it writes its BANDHEAD (`torn`: leaving a zero-length
    /// one): the band directory exists but holds no readable head.
    pub fn backup_killed_at_head(&mut self, opts: Opts, torn: bool) -> StepKind {
        let next = self.band_ids_on_disk().last().map_or(0, |m| m + 1);
        let key = crate::hooks::Key {
            verb: crate::hooks::V::Write,
            path: format!("{}/BANDHEAD", format::band_dirname(next)),
            occ: 0,
        };
        self.do_backup(opts, Plan::FreezeAtKey { key, torn })
    }

    fn do_delete(&mut self, requested: Vec<u32>, dry_run: bool) -> StepKind {
        let ctl = Ctl::new(&self.arch, Plan::None);
        let hook: Hook = Some(ctl.clone() as Arc<dyn conserve::transport::verif::Interceptor>);
        let report = ops::delete_bands(&self.arch, &hook, &requested, dry_run, false);
        if report.is_ok() && !dry_run {
            for id in &requested {
                self.bands.remove(id);
            }
        }
        StepKind::Delete {
            report,
            log: ctl.log(),
            requested,
            dry_run,
        }
    }
}
