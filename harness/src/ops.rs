//! Wrappers that run conserve operations under catch_unwind on a fresh runtime and
//! collect every way an operation can "report an error".

use std::any::Any;
use std::cell::RefCell;
use std::future::Future;
use std::path::Path;
use std::rc::Rc;
use std::sync::atomic::{AtomicU64, Ordering};
use std::sync::{Arc, Mutex, Once};

use conserve::monitor::test::TestMonitor;
use conserve::transport::Transport;
use conserve::transport::verif::Interceptor;
use conserve::{
    Apath, Archive, BackupOptions, BackupStats, BandId, BandSelectionPolicy, DeleteOptions,
    DeleteStats, DiffOptions, EntryChange, Exclude, IndexEntry, RestoreOptions, SourceTree,
    ValidateOptions,
};
use serde::{Deserialize, Serialize};

pub type Hook = Option<Arc<dyn Interceptor>>;

static ERROR_EVENTS: AtomicU64 = AtomicU64::new(0);
static WARN_EVENTS: AtomicU64 = AtomicU64::new(0);
static LAST_PANIC: Mutex<Option<String>> = Mutex::new(None);
static INIT: Once = Once::new();
thread_local! {
    static CACHED_RT: RefCell<Option<tokio::runtime::Runtime>> = const { RefCell::new(None) };
}
static IN_OP: std::sync::atomic::AtomicUsize = std::sync::atomic::AtomicUsize::new(0);

struct CountingSubscriber;

impl tracing::Subscriber for CountingSubscriber {
    fn enabled(&self, metadata: &tracing::Metadata<'_>) -> bool {
        *metadata.level() <= tracing::Level::WARN && metadata.is_event()
    }
    fn new_span(&self, _span: &tracing::span::Attributes<'_>) -> tracing::span::Id {
        tracing::span::Id::from_u64(1)
    }
    fn record(&self, _span: &tracing::span::Id, _values: &tracing::span::Record<'_>) {}
    fn record_follows_from(&self, _span: &tracing::span::Id, _follows: &tracing::span::Id) {}
    fn event(&self, event: &tracing::Event<'_>) {
        if *event.metadata().level() == tracing::Level::ERROR {
            ERROR_EVENTS.fetch_add(1, Ordering::SeqCst);
        } else {
            WARN_EVENTS.fetch_add(1, Ordering::SeqCst);
        }
    }
    fn enter(&self, _span: &tracing::span::Id) {}
    fn exit(&self, _span: &tracing::span::Id) {}
}

/// Install the panic hook and tracing subscriber (once per process).
pub fn init_process() {
    INIT.call_once(|| {
        let quiet = std::env::var("VERIF_DEBUG").is_err();
        std::panic::set_hook(Box::new(move |info| {
            let loc = info
                .location()
                .map(|l| format!("{}:{}", l.file(), l.line()))
                .unwrap_or_else(|| "?".into());
            let msg = if let Some(s) = info.payload().downcast_ref::<&str>() {
                s.to_string()
            } else if let Some(s) = info.payload().downcast_ref::<String>() {
                s.clone()
            } else {
                "non-string panic".into()
            };
            *LAST_PANIC.lock().unwrap() = Some(format!("{loc}: {msg}"));
            // Panics inside a conserve operation are data; anything else is a harness bug.
            if !quiet || IN_OP.load(Ordering::SeqCst) == 0 {
                eprintln!("panic at {loc}: {msg}");
            }
        }));
        let _ = tracing::subscriber::set_global_default(CountingSubscriber);
    });
}

pub fn panic_message(p: &Box<dyn Any + Send>) -> String {
    if let Some(m) = LAST_PANIC.lock().unwrap().take() {
        return m;
    }
    if let Some(s) = p.downcast_ref::<&str>() {
        s.to_string()
    } else if let Some(s) = p.downcast_ref::<String>() {
        s.clone()
    } else {
        "non-string panic".into()
    }
}

/// Reduce a panic message "file:line: text" to a stable site "file: text-prefix".
pub fn panic_site(msg: &str) -> String {
    // strip line number; keep file and the first few words
    let mut parts = msg.splitn(3, ':');
    let file = parts.next().unwrap_or("?");
    let _line = parts.next();
    let text = parts.next().unwrap_or("").trim();
    let short: String = text
        .chars()
        .take_while(|c| *c != '\n')
        .take(48)
        .map(|c| if c.is_ascii_alphanumeric() { c } else { '_' })
        .collect();
    format!("{file}:{short}")
}

#[derive(Debug)]
pub struct OpReport<T> {
    /// Ok(value) or Err(Debug rendering of the conserve error).
    pub result: Result<T, String>,
    pub panic: Option<String>,
    pub monitor_errors: Vec<String>,
    pub error_events: u64,
    pub warn_events: u64,
}

impl<T> OpReport<T> {
    pub fn is_ok(&self) -> bool {
        self.panic.is_none() && self.result.is_ok()
    }
    /// Any of: Err, monitor error, ERROR-level tracing event (panic counts too).
    pub fn reported_error(&self) -> bool {
        self.panic.is_some()
            || self.result.is_err()
            || !self.monitor_errors.is_empty()
            || self.error_events > 0
    }
    /// Ok, no panic, no monitor errors, no ERROR events.
    pub fn clean(&self) -> bool {
        !self.reported_error()
    }
    pub fn describe(&self) -> String {
        format!(
            "result={} panic={:?} monitor_errors={:?} error_events={}",
            match &self.result {
                Ok(_) => "Ok".to_string(),
                Err(e) => format!("Err({e})"),
            },
            self.panic,
            self.monitor_errors,
            self.error_events
        )
    }
    pub fn map<U>(self, f: impl FnOnce(T) -> U) -> OpReport<U> {
        OpReport {
            result: self.result.map(f),
            panic: self.panic,
            monitor_errors: self.monitor_errors,
            error_events: self.error_events,
            warn_events: self.warn_events,
        }
    }
}

#[derive(Debug, Clone, Copy, PartialEq, Eq)]
pub enum Rt {
    Current,
    Multi(usize),
}

pub fn run_op_rt<T, F, Fut>(rt: Rt, f: F) -> OpReport<T>
where
    F: FnOnce(Arc<TestMonitor>) -> Fut,
    Fut: Future<Output = conserve::Result<T>>,
{
    init_process();
    let monitor = TestMonitor::arc();
    let e0 = ERROR_EVENTS.load(Ordering::SeqCst);
    let w0 = WARN_EVENTS.load(Ordering::SeqCst);
    *LAST_PANIC.lock().unwrap() = None;
    let m2 = monitor.clone();
    IN_OP.fetch_add(1, Ordering::SeqCst);
    let r = std::panic::catch_unwind(std::panic::AssertUnwindSafe(move || {
        // Current-thread runtimes are kept per OS thread and reused (building one per
        // operation costs a set of blocking-pool threads each time); multi-thread ones
        // are built fresh. After a panic the cached runtime is discarded.
        let runtime = match rt {
            Rt::Current => CACHED_RT
                .with(|c| c.borrow_mut().take())
                .unwrap_or_else(|| {
                    tokio::runtime::Builder::new_current_thread()
                        .enable_all()
                        .build()
                        .expect("build runtime")
                }),
            Rt::Multi(n) => tokio::runtime::Builder::new_multi_thread()
                .worker_threads(n)
                .enable_all()
                .build()
                .expect("build runtime"),
        };
        let out = runtime.block_on(f(m2));
        // Let detached tasks (e.g. the lock removal spawned by GarbageCollectionLock::drop)
        // run to completion, as they would in a process that keeps its runtime alive.
        let handle = runtime.handle().clone();
        let mut quiet = false;
        runtime.block_on(async {
            for _ in 0..2000 {
                tokio::task::yield_now().await;
                if handle.metrics().num_alive_tasks() == 0 {
                    quiet = true;
                    break;
                }
                tokio::time::sleep(std::time::Duration::from_millis(1)).await;
            }
        });
        if rt == Rt::Current && quiet {
            CACHED_RT.with(|c| *c.borrow_mut() = Some(runtime));
        } else {
            drop(runtime);
        }
        out
    }));
    IN_OP.fetch_sub(1, Ordering::SeqCst);
    let monitor_errors: Vec<String> = monitor
        .take_errors()
        .into_iter()
        .map(|e| format!("{e:?}"))
        .collect();
    let error_events = ERROR_EVENTS.load(Ordering::SeqCst) - e0;
    let warn_events = WARN_EVENTS.load(Ordering::SeqCst) - w0;
    match r {
        Ok(Ok(v)) => OpReport {
            result: Ok(v),
            panic: None,
            monitor_errors,
            error_events,
            warn_events,
        },
        Ok(Err(e)) => OpReport {
            result: Err(format!("{e:?}")),
            panic: None,
            monitor_errors,
            error_events,
            warn_events,
        },
        Err(p) => OpReport {
            result: Err("panic".into()),
            panic: Some(panic_message(&p)),
            monitor_errors,
            error_events,
            warn_events,
        },
    }
}

pub fn run_op<T, F, Fut>(f: F) -> OpReport<T>
where
    F: FnOnce(Arc<TestMonitor>) -> Fut,
    Fut: Future<Output = conserve::Result<T>>,
{
    run_op_rt(Rt::Current, f)
}

pub fn transport(path: &Path, hook: &Hook) -> Transport {
    let t = Transport::local(path);
    match hook {
        Some(h) => t.with_interceptor(Arc::clone(h)),
        None => t,
    }
}

#[derive(Debug, Clone, Copy, PartialEq, Eq, Serialize, Deserialize)]
pub struct Opts {
    pub hunk: usize,
    pub block: usize,
    pub cap: u64,
}

impl Opts {
    pub fn defaults() -> Opts {
        Opts {
            hunk: 100_000,
            block: 20 << 20,
            cap: 1 << 20,
        }
    }
}

thread_local! {
    /// When set, `exclude_of` hands the patterns that a pattern file can carry to conserve
    /// through `Exclude::from_patterns_and_files` (the `--exclude-from` route), in the file
    /// named here, between comment and blank lines; the rest go as strings.
    static EXCLUDE_FILE: RefCell<Option<std::path::PathBuf>> = const { RefCell::new(None) };
}

pub fn set_exclude_file(path: Option<std::path::PathBuf>) {
    EXCLUDE_FILE.with(|c| *c.borrow_mut() = path);
}

/// A pattern survives the pattern-file syntax (lines trimmed, `#` comments, blank lines
/// skipped) unchanged.
pub fn file_safe_pattern(p: &str) -> bool {
    !p.is_empty() && p.trim() == p && !p.starts_with('#') && !p.contains('\n') && !p.contains('\r')
}

pub fn exclude_of(pats: &[String]) -> conserve::Result<Exclude> {
    if let Some(file) = EXCLUDE_FILE.with(|c| c.borrow().clone()) {
        let (in_file, direct): (Vec<&String>, Vec<&String>) = pats.iter().partition(|p| file_safe_pattern(p));
        // up to three files; patterns dealt round-robin; comment lines, blank lines and
        // surrounding blanks in between; every other file ends without a newline
        let nfiles = in_file.len().clamp(1, 3);
        let mut files = vec![];
        for j in 0..nfiles {
            let mut text = String::from(if j == 1 { "" } else { "# patterns\n\n" });
            let mine: Vec<&&String> = in_file.iter().skip(j).step_by(nfiles).collect();
            for (i, p) in mine.iter().enumerate() {
                let last = i + 1 == mine.len();
                text.push_str(if (i + j) % 2 == 0 { "" } else { "  " });
                text.push_str(p);
                if last && j % 2 == 0 {
                    break; // no newline at the end of this file
                }
                text.push_str(if i % 3 == 0 { " \n" } else { "\n" });
                if i % 2 == 1 {
                    text.push_str("   \n#x\n");
                }
            }
            let path = file.with_extension(format!("{j}"));
            std::fs::write(&path, text).expect("write pattern file");
            files.push(path);
        }
        return Exclude::from_patterns_and_files(direct, files);
    }
    if pats.is_empty() {
        Ok(Exclude::nothing())
    } else {
        Exclude::from_strings(pats)
    }
}

/// A subtree selection as an `Apath`: built with `From<&str>` or, as the command line does,
/// by parsing the text (`FromStr`), alternating with the length of the path.
pub fn apath_of(s: &str) -> Apath {
    if s.len() % 2 == 0 {
        s.parse::<Apath>().unwrap_or_else(|_| panic!("Apath::from_str rejects the well-formed path {s:?}"))
    } else {
        Apath::from(s)
    }
}

pub fn create_archive(path: &Path) -> OpReport<()> {
    let path = path.to_owned();
    run_op(move |_m| async move { Archive::create_path(&path).await.map(|_| ()) })
}

#[derive(Debug, Clone, PartialEq, Eq)]
pub struct ChangeRec {
    pub apath: String,
    /// '.', '+', '-', '*'
    pub sigil: char,
}

#[derive(Debug)]
pub struct BackupOut {
    pub stats: BackupStats,
    pub changes: Vec<ChangeRec>,
}

thread_local! {
    /// Test hook: called with the apath of every entry the backup's change callback reports
    /// (used to change the source tree while a backup is running).
    static ON_CHANGE: RefCell<Option<Box<dyn FnMut(&str)>>> = const { RefCell::new(None) };
}

thread_local! {
    /// `BackupOptions::owner` for the backups this thread makes (default true).
    static RECORD_OWNER: std::cell::Cell<bool> = const { std::cell::Cell::new(true) };
}

/// Make this thread's following backups with `BackupOptions::owner = on`.
pub fn set_record_owner(on: bool) {
    RECORD_OWNER.with(|c| c.set(on));
}

pub fn set_on_change(f: Option<Box<dyn FnMut(&str)>>) {
    ON_CHANGE.with(|c| *c.borrow_mut() = f);
}

pub fn backup_rt(
    rt: Rt,
    archive: &Path,
    hook: &Hook,
    source: &Path,
    opts: Opts,
    exclude: &[String],
) -> OpReport<BackupOut> {
    let changes: Rc<RefCell<Vec<ChangeRec>>> = Rc::new(RefCell::new(Vec::new()));
    let ch2 = Rc::clone(&changes);
    let rep = run_op_rt(rt, move |m| async move {
        let a = Archive::open(transport(archive, hook)).await?;
        let options = BackupOptions {
            exclude: exclude_of(exclude)?,
            max_entries_per_hunk: opts.hunk,
            max_block_size: opts.block,
            small_file_cap: opts.cap,
            change_callback: Some(Box::new(move |ec: &EntryChange| {
                ch2.borrow_mut().push(ChangeRec {
                    apath: ec.apath.to_string(),
                    sigil: ec.change.sigil(),
                });
                ON_CHANGE.with(|c| {
                    if let Some(f) = c.borrow_mut().as_mut() {
                        f(&ec.apath);
                    }
                });
                Ok(())
            })),
            owner: RECORD_OWNER.with(|c| c.get()),
        };
        // the source directory as a caller may spell it: every other time with a trailing '/'
        let spelled = if opts.hunk % 2 == 1 { source.join("") } else { source.to_path_buf() };
        conserve::backup(&a, &spelled, &options, m).await
    });
    let ch = std::mem::take(&mut *changes.borrow_mut());
    rep.map(|stats| BackupOut { stats, changes: ch })
}

pub fn backup(
    archive: &Path,
    hook: &Hook,
    source: &Path,
    opts: Opts,
    exclude: &[String],
) -> OpReport<BackupOut> {
    backup_rt(Rt::Current, archive, hook, source, opts, exclude)
}

/// Two backups through ONE opened `Archive` value, as a long-running program would make
/// them; `between` runs after the first (e.g. to damage the archive directory). The report
/// is that of the whole sequence; the stats are the second backup's.
pub fn two_backups_one_handle(
    archive: &Path,
    source: &Path,
    opts: Opts,
    between: Box<dyn FnOnce()>,
) -> OpReport<BackupStats> {
    run_op_rt(Rt::Current, move |m| async move {
        let a = Archive::open(transport(archive, &None)).await?;
        let options = || BackupOptions {
            exclude: Exclude::nothing(),
            max_entries_per_hunk: opts.hunk,
            max_block_size: opts.block,
            small_file_cap: opts.cap,
            change_callback: None,
            owner: true,
        };
        conserve::backup(&a, source, &options(), m.clone()).await?;
        between();
        conserve::backup(&a, source, &options(), m).await
    })
}

/// A program holds an opened `Archive` value `A` and the block directory it handed out;
/// meanwhile the tree is backed up through a second, separately opened value `B`; then the
/// unchanged tree is backed up through `A`. The report is that of the whole sequence, the
/// stats are those of the backup through `A`.
pub fn backup_through_two_handles(archive: &Path, source: &Path, opts: Opts) -> OpReport<BackupStats> {
    run_op_rt(Rt::Current, move |m| async move {
        let a = Archive::open(transport(archive, &None)).await?;
        let held = a.block_dir().await?;
        let options = || BackupOptions {
            exclude: Exclude::nothing(),
            max_entries_per_hunk: opts.hunk,
            max_block_size: opts.block,
            small_file_cap: opts.cap,
            change_callback: None,
            owner: true,
        };
        let b = Archive::open(transport(archive, &None)).await?;
        conserve::backup(&b, source, &options(), m.clone()).await?;
        let stats = conserve::backup(&a, source, &options(), m).await?;
        drop(held);
        Ok(stats)
    })
}

/// A backup counts as "reported complete success" iff Ok, no monitor errors, stats.errors==0.
/// (A line in the log at ERROR level is not a report here: a backup accounts for its errors
/// in its result, its monitor and `stats.errors`, and "Ok, 0 errors" is what the user is told.)
pub fn backup_reported_error(r: &OpReport<BackupOut>) -> bool {
    r.panic.is_some() || r.result.is_err() || !r.monitor_errors.is_empty() || r.result.as_ref().map(|o| o.stats.errors > 0).unwrap_or(true)
}

#[derive(Debug, Clone, Serialize, Deserialize, PartialEq, Eq)]
pub enum Sel {
    LatestClosed,
    Latest,
    Band(u32),
}

impl Sel {
    pub fn policy(&self) -> BandSelectionPolicy {
        match self {
            Sel::LatestClosed => BandSelectionPolicy::LatestClosed,
            Sel::Latest => BandSelectionPolicy::Latest,
            Sel::Band(b) => BandSelectionPolicy::Specified(BandId::from(*b)),
        }
    }
}

pub fn restore(
    archive: &Path,
    hook: &Hook,
    dest: &Path,
    sel: &Sel,
    subtree: Option<&str>,
    exclude: &[String],
    overwrite: bool,
) -> OpReport<()> {
    run_op(move |m| async move {
        let a = Archive::open(transport(archive, hook)).await?;
        let options = RestoreOptions {
            exclude: exclude_of(exclude)?,
            only_subtree: subtree.map(apath_of),
            overwrite,
            band_selection: sel.policy(),
            change_callback: None,
            inject_failures: Default::default(),
        };
        // the destination as a caller may spell it: with a trailing '/' when its last
        // component has an even number of characters
        let even = dest.file_name().map_or(false, |n| n.len() % 2 == 0);
        let spelled = if even { dest.join("") } else { dest.to_path_buf() };
        // ... and the file-creation mask the restoring process happens to run under: the usual
        // 022, or 077, 002, 027, by the length of the whole destination path
        let mask = [0o022, 0o077, 0o002, 0o027][dest.as_os_str().len() % 4];
        struct Unmask(libc::mode_t);
        impl Drop for Unmask {
            fn drop(&mut self) {
                unsafe { libc::umask(self.0) };
            }
        }
        let _unmask = Unmask(unsafe { libc::umask(mask) });
        conserve::restore(&a, &spelled, options, m).await
    })
}

pub fn list_entries(
    archive: &Path,
    hook: &Hook,
    sel: &Sel,
    subtree: &str,
    exclude: &[String],
    max: usize,
) -> OpReport<Vec<IndexEntry>> {
    run_op(move |m| async move {
        let a = Archive::open(transport(archive, hook)).await?;
        let mut st = a
            .iter_entries(sel.policy(), apath_of(subtree), exclude_of(exclude)?, m)
            .await?;
        let mut out = Vec::new();
        while let Some(e) = st.next().await {
            out.push(e);
            if out.len() > max {
                break;
            }
        }
        Ok(out)
    })
}

/// Several subtree listings through ONE opened `StoredTree` value, one after the other (the
/// first of them the whole tree), as a program that keeps the value would make them.
pub fn list_many_through_one_tree(archive: &Path, sel: &Sel, subtrees: &[String], max: usize) -> OpReport<Vec<Vec<String>>> {
    run_op(move |m| async move {
        let a = Archive::open(transport(archive, &None)).await?;
        let st = a.open_stored_tree(sel.policy()).await?;
        let mut all = Vec::new();
        for s in std::iter::once(&"/".to_string()).chain(subtrees.iter()) {
            let mut it = st.iter_entries(apath_of(s), Exclude::nothing(), m.clone());
            let mut out = Vec::new();
            while let Some(e) = it.next().await {
                out.push(e.apath.to_string());
                if out.len() > max {
                    break;
                }
            }
            all.push(out);
        }
        Ok(all)
    })
}

pub fn list_band_ids(archive: &Path, hook: &Hook) -> OpReport<Vec<u32>> {
    run_op(move |_m| async move {
        let a = Archive::open(transport(archive, hook)).await?;
        let ids = a.list_band_ids().await?;
        Ok(ids
            .into_iter()
            .map(|b| b.to_string()[1..].parse::<u32>().unwrap())
            .collect())
    })
}

/// `conserve versions` as the command line runs it: `show_versions` with the detail
/// options on (start time, duration, tree size, which walks the stitched index) or off.
/// Prints to stdout; lines not starting with `@@` are ignored by the engine.
pub fn show_versions(archive: &Path, hook: &Hook, detail: bool, newest_first: bool) -> OpReport<()> {
    run_op(move |_m| async move {
        let a = Archive::open(transport(archive, hook)).await?;
        let options = conserve::ShowVersionsOptions {
            newest_first,
            tree_size: detail,
            start_time: detail,
            backup_duration: detail,
            utc: true,
        };
        let monitor = Arc::new(conserve::termui::TermUiMonitor::new(false));
        conserve::show_versions(&a, &options, monitor).await
    })
}

pub fn validate(archive: &Path, hook: &Hook, quick: bool) -> OpReport<()> {
    validate_rt(Rt::Current, archive, hook, quick)
}

pub fn validate_rt(rt: Rt, archive: &Path, hook: &Hook, quick: bool) -> OpReport<()> {
    run_op_rt(rt, move |m| async move {
        let a = Archive::open(transport(archive, hook)).await?;
        a.validate(
            &ValidateOptions {
                skip_block_hashes: quick,
            },
            m,
        )
        .await
    })
}

pub fn delete_bands(
    archive: &Path,
    hook: &Hook,
    ids: &[u32],
    dry_run: bool,
    break_lock: bool,
) -> OpReport<DeleteStats> {
    delete_bands_rt(Rt::Current, archive, hook, ids, dry_run, break_lock)
}

pub fn delete_bands_rt(
    rt: Rt,
    archive: &Path,
    hook: &Hook,
    ids: &[u32],
    dry_run: bool,
    break_lock: bool,
) -> OpReport<DeleteStats> {
    let ids: Vec<BandId> = ids.iter().map(|b| BandId::from(*b)).collect();
    run_op_rt(rt, move |m| async move {
        let a = Archive::open(transport(archive, hook)).await?;
        a.delete_bands(&ids, &DeleteOptions { dry_run, break_lock }, m)
            .await
    })
}

pub fn diff(
    archive: &Path,
    sel: &Sel,
    source: &Path,
    include_unchanged: bool,
) -> OpReport<Vec<ChangeRec>> {
    run_op(move |m| async move {
        let a = Archive::open(transport(archive, &None)).await?;
        let st = a.open_stored_tree(sel.policy()).await?;
        let lt = SourceTree::open(source)?;
        let mut d = conserve::diff(
            &st,
            &lt,
            DiffOptions {
                exclude: Exclude::nothing(),
                include_unchanged,
            },
            m,
        )
        .await?;
        let mut out = vec![];
        while let Some(ec) = d.next().await {
            out.push(ChangeRec {
                apath: ec.apath.to_string(),
                sigil: ec.change.sigil(),
            });
        }
        Ok(out)
    })
}

/// Source-tree walk order as conserve sees it.
pub fn source_walk(source: &Path, exclude: &[String]) -> OpReport<Vec<String>> {
    run_op(move |m| async move {
        let lt = SourceTree::open(source)?;
        let it = lt.iter_entries(Apath::root(), exclude_of(exclude)?, m)?;
        Ok(it.map(|e| {
            use conserve::EntryTrait;
            e.apath().to_string()
        })
        .collect())
    })
}

pub fn band_is_closed(archive: &Path, band: u32) -> OpReport<bool> {
    run_op(move |_m| async move {
        let a = Archive::open(transport(archive, &None)).await?;
        a.band_is_closed(BandId::from(band)).await
    })
}

/// Compare a conserve IndexEntry with an independently decoded one.
pub fn entry_matches(e: &IndexEntry, r: &crate::format::RawEntry) -> bool {
    let kind = match e.kind {
        conserve::Kind::File => "File",
        conserve::Kind::Dir => "Dir",
        conserve::Kind::Symlink => "Symlink",
        conserve::Kind::Unknown => "Unknown",
    };
    e.apath.to_string() == r.apath
        && kind == r.kind
        && e.mtime == r.mtime
        && e.mtime_nanos as u64 == r.mtime_nanos
        && e.target == r.target
        && e.owner.user == r.user
        && e.owner.group == r.group
        && e.addrs.len() == r.addrs.len()
        && e
            .addrs
            .iter()
            .zip(r.addrs.iter())
            .all(|(a, b)| a.hash.to_string() == b.hash && a.start == b.start && a.len == b.len)
}
