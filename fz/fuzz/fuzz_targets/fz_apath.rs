#![no_main]
//! C11/C12: Apath::is_valid, cmp and is_prefix_of against the reference definitions,
//! on three strings cut out of the fuzzer's bytes.

use std::cmp::Ordering;

use conserve::Apath;
use libfuzzer_sys::fuzz_target;

fn key(p: &str) -> (Vec<&[u8]>, &[u8]) {
    let b = p.as_bytes();
    let b = if !b.is_empty() && b[0] == b'/' { &b[1..] } else { b };
    let mut comps: Vec<&[u8]> = Vec::new();
    let mut start = 0usize;
    for i in 0..b.len() {
        if b[i] == b'/' {
            comps.push(&b[start..i]);
            start = i + 1;
        }
    }
    (comps, &b[start..])
}

fn ref_cmp(a: &str, b: &str) -> Ordering {
    let (da, na) = key(a);
    let (db, nb) = key(b);
    let mut i = 0;
    loop {
        match (da.get(i), db.get(i)) {
            (None, None) => return na.cmp(nb),
            (None, Some(_)) => return Ordering::Less,
            (Some(_), None) => return Ordering::Greater,
            (Some(x), Some(y)) => match x.cmp(y) {
                Ordering::Equal => i += 1,
                o => return o,
            },
        }
    }
}

fn ref_valid(s: &str) -> bool {
    let b = s.as_bytes();
    if b.is_empty() || b[0] != b'/' {
        return false;
    }
    if b.len() == 1 {
        return true;
    }
    b[1..]
        .split(|c| *c == b'/')
        .all(|part| !part.is_empty() && part != b"." && part != b".." && !part.contains(&0u8))
}

fn under(s: &str, p: &str) -> bool {
    let (sb, pb) = (s.as_bytes(), p.as_bytes());
    if sb == b"/" {
        return true;
    }
    if pb.len() < sb.len() || &pb[..sb.len()] != sb {
        return false;
    }
    pb.len() == sb.len() || pb[sb.len()] == b'/'
}

fuzz_target!(|data: &[u8]| {
    // 0xFF never occurs in UTF-8: use it as the separator between the three strings.
    let parts: Vec<String> = data
        .split(|b| *b == 0xFF)
        .take(3)
        .map(|p| String::from_utf8_lossy(p).into_owned())
        .collect();
    let mut valid: Vec<Apath> = vec![];
    for s in &parts {
        let got = Apath::is_valid(s);
        assert_eq!(got, ref_valid(s), "is_valid({s:?})");
        assert_eq!(s.parse::<Apath>().is_ok(), got, "parse({s:?})");
        if got {
            valid.push(Apath::from(s.as_str()));
        }
    }
    for a in &valid {
        for b in &valid {
            let c = a.cmp(b);
            assert_eq!(c, ref_cmp(a, b), "cmp({a:?},{b:?})");
            assert_eq!(b.cmp(a), c.reverse(), "antisymmetry({a:?},{b:?})");
            assert_eq!(c == Ordering::Equal, **a == **b, "equality({a:?},{b:?})");
            assert_eq!(a.is_prefix_of(b), under(a, b), "is_prefix_of({a:?},{b:?})");
            for d in &valid {
                if a <= b && b <= d {
                    assert!(a <= d, "transitivity({a:?},{b:?},{d:?})");
                }
            }
        }
    }
});
