#![no_main]
//! C10: structured garbage in one stored file of a small two-band archive must never
//! panic (or hang) list / restore / validate. The archive is written directly in the
//! documented format; the fuzzer chooses the file and the replacement (raw bytes, or an
//! index hunk / head / tail re-encoded with ill-typed or extreme field values).

use std::path::{Path, PathBuf};
use std::sync::Arc;

use arbitrary::Unstructured;
use conserve::monitor::test::TestMonitor;
use conserve::{Apath, Archive, BandId, BandSelectionPolicy, Exclude, RestoreOptions, ValidateOptions};
use libfuzzer_sys::fuzz_target;
use serde_json::{Value, json};

fn snap(b: &[u8]) -> Vec<u8> {
    snap::raw::Encoder::new().compress_vec(b).unwrap()
}

const HASH: &str = "e4cfa39a3d37be31c59609e807970799caa68a19bfaa15135f165085e01d41a65ba1e1b146aeb6bd0092b49eac214c103ccfa3a365954bbbe52f74a2b3620c94";

fn base_entries(band: u32) -> Vec<Value> {
    vec![
        json!({"apath":"/","kind":"Dir","mtime":1500000000+band,"unix_mode":493,"user":"root","group":"root"}),
        json!({"apath":"/a","kind":"File","mtime":1500000001,"mtime_nanos":5,"unix_mode":420,"addrs":[{"hash":HASH,"start":0,"len":3}]}),
        json!({"apath":"/b","kind":"Symlink","mtime":1500000002,"unix_mode":511,"target":"a"}),
        json!({"apath":"/d","kind":"Dir","mtime":1500000003,"unix_mode":493}),
        json!({"apath":"/d/e","kind":"File","mtime":-5,"mtime_nanos":999999999,"unix_mode":384,"addrs":[{"hash":HASH,"start":1,"len":4}]}),
    ]
}

fn write_archive(root: &Path) {
    let _ = std::fs::remove_dir_all(root);
    std::fs::create_dir_all(root.join("d").join(&HASH[..3])).unwrap();
    std::fs::write(root.join("CONSERVE"), "{\"conserve_archive_version\":\"0.6\"}\n").unwrap();
    std::fs::write(root.join("d").join(&HASH[..3]).join(HASH), snap(b"hello")).unwrap();
    for band in 0..2u32 {
        let b = root.join(format!("b{band:04}"));
        std::fs::create_dir_all(b.join("i/00000")).unwrap();
        std::fs::write(b.join("BANDHEAD"), "{\"start_time\":1500000000,\"band_format_version\":\"0.6.3\",\"format_flags\":[]}\n").unwrap();
        let es = base_entries(band);
        std::fs::write(b.join("i/00000/000000000"), snap(&serde_json::to_vec(&es[..3]).unwrap())).unwrap();
        std::fs::write(b.join("i/00000/000000001"), snap(&serde_json::to_vec(&es[3..]).unwrap())).unwrap();
        if band == 0 {
            std::fs::write(b.join("BANDTAIL"), "{\"end_time\":1500000009,\"index_hunk_count\":2}\n").unwrap();
        }
    }
}

fn weird_value(u: &mut Unstructured) -> Value {
    match u.int_in_range(0..=14u8).unwrap_or(0) {
        0 => Value::Null,
        1 => json!(u64::MAX),
        2 => json!(i64::MIN),
        3 => json!(i64::MAX),
        4 => json!(u32::MAX),
        5 => json!(-1),
        6 => json!(1e300),
        7 => json!(""),
        8 => json!("/"),
        9 => json!([]),
        10 => json!({}),
        11 => json!(true),
        12 => json!(String::from_utf8_lossy(u.bytes(u.len().min(12)).unwrap_or(b"x")).into_owned()),
        13 => json!(u.arbitrary::<i64>().unwrap_or(0)),
        _ => json!(u.arbitrary::<u64>().unwrap_or(0)),
    }
}

const KEYS: &[&str] = &[
    "apath", "kind", "mtime", "mtime_nanos", "unix_mode", "user", "group", "addrs", "target", "hash", "start", "len",
    "start_time", "band_format_version", "format_flags", "end_time", "index_hunk_count",
];
const KINDS: &[&str] = &["File", "Dir", "Symlink", "Unknown", "file", ""];
const PATHS: &[&str] = &["/", "/a", "/a/", "//", "/..", "/a/../b", "a", "", "/\u{0}", "/d/e", "/zz", "/a/b/c"];

fn mutate_json(v: &mut Value, u: &mut Unstructured, depth: u32) {
    let n = u.int_in_range(1..=3u8).unwrap_or(1);
    for _ in 0..n {
        match &mut *v {
            Value::Array(a) => {
                match u.int_in_range(0..=4u8).unwrap_or(0) {
                    0 if !a.is_empty() => {
                        let i = u.choose_index(a.len()).unwrap_or(0);
                        a.remove(i);
                    }
                    1 if !a.is_empty() => {
                        let i = u.choose_index(a.len()).unwrap_or(0);
                        let x = a[i].clone();
                        a.push(x);
                    }
                    2 if a.len() >= 2 => a.swap(0, 1),
                    3 => a.push(weird_value(u)),
                    _ => {
                        if !a.is_empty() && depth < 4 {
                            let i = u.choose_index(a.len()).unwrap_or(0);
                            mutate_json(&mut a[i], u, depth + 1);
                        }
                    }
                }
            }
            Value::Object(m) => {
                let key = *u.choose(KEYS).unwrap_or(&"apath");
                match u.int_in_range(0..=5u8).unwrap_or(0) {
                    0 => {
                        m.remove(key);
                    }
                    1 => {
                        m.insert(key.to_string(), weird_value(u));
                    }
                    2 => {
                        m.insert("kind".into(), json!(*u.choose(KINDS).unwrap_or(&"File")));
                    }
                    3 => {
                        m.insert("apath".into(), json!(*u.choose(PATHS).unwrap_or(&"/")));
                    }
                    _ => {
                        if let Some(x) = m.get_mut(key) {
                            if depth < 4 {
                                mutate_json(x, u, depth + 1);
                            }
                        } else {
                            m.insert(key.to_string(), weird_value(u));
                        }
                    }
                }
            }
            other => *other = weird_value(u),
        }
    }
}

#[derive(Debug)]
struct Plan {
    file: PathBuf,
    content: Option<Vec<u8>>,
}

fn plan(root: &Path, u: &mut Unstructured) -> Plan {
    let band = u.int_in_range(0..=1u32).unwrap_or(0);
    let b = root.join(format!("b{band:04}"));
    let which = u.int_in_range(0..=4u8).unwrap_or(0);
    let (file, base_json, compressed): (PathBuf, Value, bool) = match which {
        0 => (b.join("BANDHEAD"), json!({"start_time":1500000000,"band_format_version":"0.6.3","format_flags":[]}), false),
        1 => (root.join("b0000/BANDTAIL"), json!({"end_time":1500000009,"index_hunk_count":2}), false),
        2 => (b.join("i/00000/000000000"), Value::Array(base_entries(band)[..3].to_vec()), true),
        3 => (b.join("i/00000/000000001"), Value::Array(base_entries(band)[3..].to_vec()), true),
        _ => (root.join("d").join(&HASH[..3]).join(HASH), Value::Null, true),
    };
    let mode = u.int_in_range(0..=9u8).unwrap_or(0);
    let content = match mode {
        0 => None, // delete
        1 => Some(vec![]),
        2 => Some(u.bytes(u.len().min(64)).unwrap_or(b"").to_vec()), // raw garbage
        3 if compressed => Some(snap(u.bytes(u.len().min(64)).unwrap_or(b""))), // valid snappy, garbage inside
        _ => {
            let mut v = base_json;
            if v.is_null() {
                Some(snap(u.bytes(u.len().min(32)).unwrap_or(b"")))
            } else {
                mutate_json(&mut v, u, 0);
                let bytes = serde_json::to_vec(&v).unwrap();
                Some(if compressed { snap(&bytes) } else { bytes })
            }
        }
    };
    Plan { file, content }
}

fuzz_target!(|data: &[u8]| {
    let root = PathBuf::from(format!("/dev/shm/fz-damage-{}", std::process::id()));
    let arch = root.join("arch");
    write_archive(&arch);
    let mut u = Unstructured::new(data);
    let p = plan(&arch, &mut u);
    match &p.content {
        None => {
            let _ = std::fs::remove_file(&p.file);
        }
        Some(c) => std::fs::write(&p.file, c).unwrap(),
    }
    let rt = tokio::runtime::Builder::new_current_thread().enable_all().build().unwrap();
    rt.block_on(async {
        let Ok(a) = Archive::open_path(&arch).await else { return };
        let _ = a.list_band_ids().await;
        // `conserve versions` with every detail column (src/show.rs): opens each band,
        // converts head and tail times, walks the stitched index for the tree size
        {
            use std::os::fd::AsRawFd;
            use std::sync::Once;
            static QUIET: Once = Once::new();
            QUIET.call_once(|| {
                unsafe extern "C" {
                    fn dup2(a: i32, b: i32) -> i32;
                }
                if let Ok(f) = std::fs::OpenOptions::new().write(true).open("/dev/null") {
                    unsafe { dup2(f.as_raw_fd(), 1) };
                }
            });
            for newest_first in [false, true] {
                let options = conserve::ShowVersionsOptions {
                    newest_first,
                    tree_size: true,
                    start_time: true,
                    backup_duration: true,
                    utc: true,
                };
                let m = Arc::new(conserve::termui::TermUiMonitor::new(false));
                let _ = conserve::show_versions(&a, &options, m).await;
            }
        }
        for band in 0..2u32 {
            let monitor = TestMonitor::arc();
            if let Ok(mut st) = a
                .iter_entries(BandSelectionPolicy::Specified(BandId::from(band)), Apath::root(), Exclude::nothing(), monitor.clone())
                .await
            {
                let mut n = 0;
                while let Some(_e) = st.next().await {
                    n += 1;
                    assert!(n <= 64, "listing of a 10-entry archive does not end");
                }
            }
            let dest = root.join(format!("restore{band}"));
            let _ = std::fs::remove_dir_all(&dest);
            let _ = conserve::restore(
                &a,
                &dest,
                RestoreOptions {
                    band_selection: BandSelectionPolicy::Specified(BandId::from(band)),
                    ..RestoreOptions::default()
                },
                monitor.clone() as Arc<dyn conserve::monitor::Monitor>,
            )
            .await;
        }
        let _ = a.validate(&ValidateOptions::default(), TestMonitor::arc()).await;
        let _ = a.validate(&ValidateOptions { skip_block_hashes: true }, TestMonitor::arc()).await;
    });
});
