//! Placeholder root crate so that `cargo fuzz` finds a project beside fuzz/.
